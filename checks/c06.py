#!/venv/bin/python
"""C06 -- USE association imports exactly the accessible names, for every
order in which source files are read.

Deterministic simulation: the seeded scheduler permutes the source-path set
(S1) and every directory enumeration (S3); each schedule runs the real
Project()+correlate() and is checked against an executable reference model of
USE association (fordsim/usemodel.py) and against every other schedule.
"""
import itertools
import json
import os
import sys

sys.path.insert(0, os.path.dirname(os.path.dirname(os.path.abspath(__file__))))
from fordsim import check, seeds, usemodel, world as W  # noqa: E402
from fordsim import orchestrate as O  # noqa: E402

PROP = "C06"
OPTIONS = {"project": "W", "src_dir": "./src", "output_dir": "./doc", "preprocess": False, "parallel": 0,
           "search": False, "graph": False, "display": ["public", "private", "protected"]}


def use_form(scope, name):
    for u in list(scope["uses"]) + list((scope.get("block") or {}).get("uses") or []):
        if u.get("only") is not None:
            for l, r in u["only"]:
                if l.lower() == name or r.lower() == name:
                    return "only" if l == r else "only+rename"
        for l, r in u.get("renames") or []:
            if l.lower() == name or r.lower() == name:
                return "rename"
    for e in scope.get("ents", []):
        if e["name"].lower() == name:
            return "own"
    return "plain"


def strip(t):
    return {c: {k: v[:2] for k, v in (t or {}).get(c, {}).items()} for c in usemodel.CLASSES}


def diff_tables(expected, actual):
    out = []
    for c in usemodel.CLASSES:
        e, a = expected[c], actual[c]
        for n in sorted(set(e) | set(a)):
            if n not in a:
                out.append(("missing", c, n))
            elif n not in e:
                out.append(("extra", c, n))
            elif e[n] != a[n]:
                out.append(("wrong-origin", c, n))
    return out


def check_dump(world, dump):
    """-> list of (signature, what)"""
    findings = []
    ford_exports = {m: strip(t) for m, t in dump["exports"].items()}
    g_tables, g_exports = usemodel.solve(world)
    local_diffs = 0
    scopes = [(m, True) for m in world["mods"]] + [(u, False) for u in world["progs"] + world["extprocs"]]
    for scope, is_mod in scopes:
        name = scope["name"].lower()
        if name not in dump["tables"]:
            findings.append(("reference-model/scope-missing", "scope %s not found by FORD" % name))
            local_diffs += 1
            continue
        scope_uses = list(scope["uses"]) + list((scope.get("block") or {}).get("uses") or [])
        imp = usemodel.imports(scope_uses, ford_exports)
        expected = usemodel.merge(imp, usemodel.own_table(scope))
        actual = strip(dump["tables"][name])
        for kind, c, n in diff_tables(expected, actual):
            local_diffs += 1
            form = use_form(scope, n)
            findings.append(("reference-model/table/%s" % form,
                             "scope %s: name '%s' (%s) is %s in FORD's name table [USE form: %s]" % (name, n, c, kind, form)))
        if is_mod:
            exp_x = usemodel.exports(scope, imp)
            act_x = ford_exports.get(name, usemodel.empty())
            for kind, c, n in diff_tables(exp_x, act_x):
                local_diffs += 1
                form = use_form(scope, n)
                access = "default-%s" % (scope.get("default") or "none")
                findings.append(("reference-model/export/%s" % form,
                                 "module %s: name '%s' (%s) is %s in FORD's export table [USE form: %s, %s]" % (name, n, c, kind, form, access)))
    # inner scopes (module procedures / interface bodies with their own USE statements): local conformance
    for mod in world["mods"]:
        mname = mod["name"].lower()
        if mname not in dump["tables"]:
            continue
        host_actual = strip(dump["tables"][mname])
        for e in mod["ents"]:
            if e.get("uses") is None:
                continue
            key = "%s::%s" % (mname, e["name"].lower())
            actual = dump.get("inner", {}).get(key)
            if actual is None:
                findings.append(("reference-model/scope-missing", "inner scope %s not found by FORD" % key))
                local_diffs += 1
                continue
            actual = strip(actual)
            imp = usemodel.imports(e["uses"], ford_exports)
            pseudo = {"uses": e["uses"], "ents": []}
            if e["kind"] == "iface":
                # no host association for interface bodies: only assert what their own USEs import
                for c in usemodel.CLASSES:
                    for n, o in imp[c].items():
                        if actual[c].get(n) != o:
                            local_diffs += 1
                            findings.append(("reference-model/inner-iface/%s" % use_form(pseudo, n),
                                             "interface body %s: name '%s' (%s) imported by its own USE is %s in its name table" % (key, n, c, "missing" if n not in actual[c] else "bound to %s" % actual[c][n])))
            else:
                expected = usemodel.merge(host_actual, imp)
                for kind, c, n in diff_tables(expected, actual):
                    local_diffs += 1
                    form = use_form(pseudo, n) if (n in imp[c] or kind != "extra") else "leak"
                    findings.append(("reference-model/inner-proc/%s" % form,
                                     "module procedure %s: name '%s' (%s) is %s in its name table [USE form: %s]" % (key, n, c, kind, form)))
    # submodules: what their own USE statements import must be in their tables (the ancestor's names are
    # host-associated and not asserted here)
    for sm in world.get("submods", []):
        key = "submodule::" + sm["name"].lower()
        actual = dump.get("inner", {}).get(key)
        if actual is None:
            findings.append(("reference-model/scope-missing", "submodule %s not found by FORD" % sm["name"]))
            local_diffs += 1
            continue
        actual = strip(actual)
        imp = usemodel.imports(sm["uses"], ford_exports)
        pseudo = {"uses": sm["uses"], "ents": []}
        for c in usemodel.CLASSES:
            for n, o in imp[c].items():
                if actual[c].get(n) != o:
                    local_diffs += 1
                    findings.append(("reference-model/submodule/%s" % use_form(pseudo, n),
                                     "submodule %s: name '%s' (%s) imported by its own USE is %s in its name table"
                                     % (sm["name"], n, c, "missing" if n not in actual[c] else "bound to %s" % actual[c][n])))
    if not local_diffs:
        for s, t in g_tables.items():
            if diff_tables(t, strip(dump["tables"].get(s))):
                findings.append(("reference-model/global-only", "scope %s differs from the global model although every scope is locally consistent" % s))
        # references through imported names
        exp_refs = set()
        for scope, is_mod in scopes:
            name = scope["name"].lower()
            t = g_tables[name]
            for e in scope.get("ents", []):
                if e.get("vtype"):
                    exp_refs.add((name, "vtype", e["name"].lower(), tuple(t["types"][e["vtype"].lower()])))
                if e.get("extends"):
                    exp_refs.add((name, "extends", e["name"].lower(), tuple(t["types"][e["extends"].lower()])))
                if e.get("comp_type"):
                    exp_refs.add((name, "comp", "%s%%k_%s" % (e["name"].lower(), e["name"].lower()),
                                  tuple(t["types"][e["comp_type"].lower()])))
            for c in list(scope.get("calls", [])) + list((scope.get("block") or {}).get("calls") or []):
                exp_refs.add((name, "call", "", tuple(t["procs"][c.lower()])))
            if is_mod:
                inner = usemodel.inner_scopes({"mods": [scope]}, g_exports, g_tables)
                for e in scope["ents"]:
                    if e.get("argtype"):
                        key = "%s::%s" % (name, e["name"].lower())
                        isc = inner[key]
                        tt = isc["imports"]["types"] if e["kind"] == "iface" else isc["table"]["types"]
                        exp_refs.add((key, "argtype", e["name"].lower() + "_a", tuple(tt[e["argtype"].lower()])))
        act_refs = {(r[0], r[1], r[2], tuple(r[3][:2])) for r in dump["refs"]}
        for r in sorted(exp_refs - act_refs):
            got = [a for a in act_refs if a[:3] == r[:3]] if r[1] != "call" else []
            findings.append(("reference-model/ref/%s" % r[1],
                             "%s %s of %s should resolve to %s.%s, FORD has %s" % (r[0], r[1], r[2] or "<call>", r[3][0], r[3][1], got or "nothing/unresolved")))
    return findings


def layout(world, sources):
    files = {"p/" + k: v for k, v in sources.items()}
    files["p/proj.md"] = W.render_project_file(OPTIONS)
    files["home/.keep"] = ""
    return files


def make_variants(rng, file_names, n_max):
    names = sorted(file_names)
    if len(names) <= 4:
        perms = [list(p) for p in itertools.permutations(names)]
    else:
        perms = [names, names[::-1]]
        seen = {tuple(names), tuple(names[::-1])}
        tries = 0
        while len(perms) < n_max and tries < 10 * n_max:
            tries += 1
            p = names[:]
            rng.shuffle(p)
            if tuple(p) not in seen:
                seen.add(tuple(p))
                perms.append(p)
    perms = perms[:n_max]
    out = []
    for i, p in enumerate(perms):
        out.append({"order_plan": {"mode": "explicit", "names": p},
                    "dir_order": "sorted" if i == 0 else {"seed": rng.randrange(1 << 30)}})
    return out


def evaluate(world, sources, variants, workdir, hashseeds=(), keep=False):
    """Run all variants of one world.  -> dict"""
    sb = os.path.join(workdir, "root")
    O.wipe(sb)
    O.materialise(layout(world, sources), sb)
    spec = {"sandbox": sb, "cwd": sb + "/p", "argv": ["ford", "proj.md"], "mode": "multi",
            "driver": "project_tables", "variants": variants, "wall_limit": 600}
    r = O.run_cold(spec, os.path.join(workdir, "work"), hashseed=0, timeout=900)
    out = {"findings": [], "harness": [], "n": 0, "orders": [], "cold": 1}
    if r["status"] != "ok" or r["result"]["outcome"]["kind"] != "ok":
        out["harness"].append("driver process failed: %s %s\n%s" % (r["status"], r["result"] and r["result"]["outcome"], r["stdout"][-1500:]))
        return out
    dumps = []
    for v, var in zip(r["result"]["driver"], variants):
        out["n"] += 1
        if v["status"] != "ok":
            out["harness"].append("variant %s: %s" % (v["i"], v["status"]))
            continue
        if v["outcome"]["kind"] != "ok":
            out["findings"].append(("run-failed/%s" % v["outcome"].get("cls", v["outcome"]["kind"]),
                                    "Project()/correlate() failed: %s" % json.dumps(v["outcome"])[:600], var))
            continue
        out["orders"].append(v["file_order"])
        dumps.append((v, var))
        for sig, what in check_dump(world, v["dump"]):
            out["findings"].append((sig, what, var))
    if dumps:
        ref = json.dumps(dumps[0][0]["dump"], sort_keys=True)
        for v, var in dumps[1:]:
            if json.dumps(v["dump"], sort_keys=True) != ref:
                sec = [k for k in ("tables", "exports", "refs") if v["dump"][k] != dumps[0][0]["dump"][k]]
                out["findings"].append(("schedule-variance/%s" % "+".join(sec),
                                        "name tables differ between file orders %s and %s" % (dumps[0][0]["file_order"], v["file_order"]), var))
    # tie the fast path to the real mechanism: natural set order under real hash seeds, cold
    for h in hashseeds:
        spec1 = {"sandbox": sb, "cwd": sb + "/p", "argv": ["ford", "proj.md"], "mode": "project_tables"}
        r1 = O.run_cold(spec1, os.path.join(workdir, "work"), hashseed=h, timeout=300, tag="hs%d" % h)
        out["cold"] += 1
        out["n"] += 1
        if r1["status"] != "ok":
            out["harness"].append("cold hash-seed run failed: %s\n%s" % (r1["status"], r1["stdout"][-800:]))
            continue
        if r1["result"]["outcome"]["kind"] != "ok":
            out["findings"].append(("run-failed/%s" % r1["result"]["outcome"].get("cls"), "cold run failed under PYTHONHASHSEED=%d: %s" % (h, r1["result"]["outcome"]), {"hashseed": h}))
            continue
        d = r1["result"]["driver"]
        for sig, what in check_dump(world, d):
            out["findings"].append((sig, what, {"hashseed": h}))
        if dumps and json.dumps(d, sort_keys=True) != ref:
            out["findings"].append(("schedule-variance/hashseed", "name tables differ under PYTHONHASHSEED=%d" % h, {"hashseed": h}))
    if not keep:
        O.wipe(workdir)
    return out


def gen_world(seed, idx):
    rng = seeds.stream(seed, PROP, idx, "world")
    w = W.gen_modgraph(rng, {"max_mods": 6, "min_mods": 2, "max_ents": 5, "ctor_generics": True})
    return w


def render(world, seed, idx):
    return W.render_sources(world, seeds.stream(seed, PROP, idx, "render"))


def shrink(world, seed, idx, variant, signature, workdir, budget=45):
    """Delta-debug the abstract world while the same signature persists."""
    from fordsim import shrink as SH
    sv = signature.startswith("schedule-variance")
    ref = {"order_plan": {"mode": "sorted"}, "dir_order": "sorted"}

    def variants_for(cand, variants):
        if sv and "order_plan" in variant:
            names = sorted("p/" + f for f in cand["files"])
            return [{"order_plan": {"mode": "explicit", "names": names}, "dir_order": "sorted"},
                    {"order_plan": {"mode": "explicit", "names": names[::-1]}, "dir_order": variant.get("dir_order")}]
        return variants

    hs = [variant["hashseed"]] if "hashseed" in variant else []
    variants = [variant] if "order_plan" in variant else [ref]
    # plan first: reset the schedule to the reference value if the violation survives that
    if "order_plan" in variant and not sv:
        r = evaluate(world, render(world, seed, idx), [ref], os.path.join(workdir, "plan"))
        if any(f[0] == signature for f in r["findings"]):
            variants = [ref]
    if sv and "order_plan" in variant:
        variants = [ref, variant]
    state = {"variants": variants}

    def test(cand, slot):
        vs = variants_for(cand, state["variants"])
        r = evaluate(cand, render(cand, seed, idx), vs, os.path.join(workdir, "s%d" % slot), hashseeds=hs)
        return (not r["harness"]) and any(f[0] == signature for f in r["findings"])

    cur, steps = SH.shrink(world, W.shrink_candidates, test, budget=budget)
    return cur, variants_for(cur, variants)


def base_variants(var, sig):
    ref = {"order_plan": {"mode": "sorted"}, "dir_order": "sorted"}
    if "order_plan" not in var:
        return [ref]
    if sig.startswith("schedule-variance"):
        return [ref, var]
    return [var]


def world_task(seed, idx, tier, batch_dir):
    workdir = os.path.join(batch_dir, "w%d" % idx)
    w = gen_world(seed, idx)
    src = render(w, seed, idx)
    rng = seeds.stream(seed, PROP, idx, "variant")
    variants = make_variants(rng, ["p/" + f for f in src], 24 if tier == "quick" else 48)
    hs = ()
    if tier == "thorough" or idx % 8 == 0:
        hs = (1 + rng.randrange(1000), 4294967295 if rng.random() < 0.5 else rng.randrange(1 << 32))
    r = evaluate(w, src, variants, workdir, hashseeds=hs)
    r["idx"] = idx
    r["n_files"] = len(src)
    r["n_mods"] = len(w["mods"])
    r["forms"] = sorted({use_form(s, (u.get("only") or u.get("renames") or [["", ""]])[0][0].lower()) if (u.get("only") or u.get("renames")) else "plain"
                         for s in w["mods"] + w["progs"] + w["extprocs"] for u in s["uses"]})
    # minimise new findings here (in the worker) so the parent only has to write them out
    seen = set()
    mins = []
    for sig, what, var in r["findings"]:
        if sig in seen:
            continue
        seen.add(sig)
        mins.append((sig, what, var))
    r["findings"] = mins
    r["sample"] = {"files": sorted(src), "orders": r["orders"][:3]}
    return r


def replay_case(rep, workdir):
    world = rep["world"]
    r = evaluate(world, rep["sources"], rep["variants"], workdir, hashseeds=rep.get("hashseeds", ()))
    return r


def main():
    args = check.parse_args(PROP)
    rep = check.Report(args, "exploration",
                       "one evaluation = one real Project()+correlate() under one (file order, directory order) schedule of a "
                       "generated module-graph world; distinct_nontrivial counts distinct (world, file order) pairs where the "
                       "world has >=2 files, >=1 USE of a project module and the order is not the sorted one")
    batch = O.new_batch_dir("c06")
    try:
        if args.replay:
            with open(args.replay) as f:
                case = json.load(f)
            r = replay_case(case, os.path.join(batch, "replay"))
            hit = [f for f in r["findings"] if f[0] == case["signature"]]
            for h in r["harness"]:
                print("HARNESS-ERROR property=%s %s" % (PROP, h))
            if hit:
                print("VIOLATION property=%s replay=%s signature=%s :: %s" % (PROP, args.replay, hit[0][0], hit[0][1]))
                return 1
            print("replay: no violation (signature %s not reproduced)" % case["signature"])
            return 2 if r["harness"] else 0
        # regression corpus: fixed findings must stay fixed
        cdir = os.path.join(check.VERIF, "corpus", PROP)
        n_corpus = 0
        if os.path.isdir(cdir):
            for fn in sorted(os.listdir(cdir)):
                if not fn.endswith(".json"):
                    continue
                with open(os.path.join(cdir, fn)) as f:
                    case = json.load(f)
                r = replay_case(case, os.path.join(batch, "corpus"))
                n_corpus += 1
                rep.cov["evaluations"] += r["n"]
                for h in r["harness"]:
                    rep.harness_error("corpus %s: %s" % (fn, h))
                for sig, what, var in r["findings"]:
                    st = rep.violation(sig, what + " [regression corpus %s]" % fn,
                                       {"world": case["world"], "sources": case["sources"], "variants": case["variants"]})
        rep.cov["fixed_regressions_passed"] = n_corpus
        n_worlds = args.worlds or (300 if args.tier == "quick" else 6000)
        budget = args.budget or (75 if args.tier == "quick" else 1500)
        tasks = [(args.seed, i, args.tier, batch) for i in range(n_worlds)]
        worlds_done = 0
        to_min = []
        for i, r in O.map_worlds(world_task, tasks, jobs=args.jobs, budget_s=budget):
            if isinstance(r, Exception):
                rep.harness_error("world %d: %r" % (i, r))
                continue
            worlds_done += 1
            rep.cov["evaluations"] += r["n"]
            rep.cov["cold_runs"] += r["cold"]
            rep.cov["forked_variants"] += r["n"] - (r["cold"] - 1)
            for h in r["harness"]:
                rep.harness_error("world %d: %s" % (i, h))
            for f in r["forms"]:
                rep.probe("use_form_" + f)
            if r["n_files"] >= 2:
                for o in r["orders"]:
                    if o and o != sorted(o):
                        rep.nontrivial((i, tuple(o)))
            rep.count("files_%d" % r["n_files"])
            rep.sample(r["sample"])
            for sig, what, var in r["findings"]:
                known = any(e["signature"] == sig for e in rep.known)
                if known:
                    rep.violation(sig, what, {})
                elif not any(v["signature"] == sig for v in rep.violations) and not any(t[1] == sig for t in to_min):
                    to_min.append((i, sig, what, var))
                else:
                    rep.count("dup_violation")
        # minimise + confirm new violations (sequentially; they are rare)
        for k_min, (i, sig, what, var) in enumerate(to_min[:12]):
            w = gen_world(args.seed, i)
            if k_min < 4:
                mw, mvars = shrink(w, args.seed, i, var, sig, os.path.join(batch, "shrink"), budget=45)
            else:  # a badly broken tree: report the rest confirmed but unminimised
                mw, mvars = w, base_variants(var, sig)
            src = render(mw, args.seed, i)
            hs = [var["hashseed"]] if "hashseed" in var else []
            conf = [evaluate(mw, src, mvars, os.path.join(batch, "confirm%d" % k), hashseeds=hs) for k in range(2)]
            if all(any(f[0] == sig for f in c["findings"]) for c in conf):
                what2 = [f[1] for f in conf[0]["findings"] if f[0] == sig][0]
                rep.violation(sig, what2, {"world": mw, "sources": src, "variants": mvars, "hashseeds": hs,
                                           "found_in_world": i})
            else:
                # minimised case does not reproduce from cold: fall back to the original
                src0 = render(w, args.seed, i)
                vs = base_variants(var, sig)
                conf = [evaluate(w, src0, vs, os.path.join(batch, "confirm%d" % k), hashseeds=hs) for k in range(2)]
                if all(any(f[0] == sig for f in c["findings"]) for c in conf):
                    rep.violation(sig, what, {"world": w, "sources": src0, "variants": vs, "hashseeds": hs, "found_in_world": i})
                else:
                    rep.harness_error("finding %s in world %d did not reproduce from a cold process" % (sig, i))
        rep.cov["worlds"] = worlds_done
        rep.cov["seeds_per_hour"] = int(worlds_done / max(1e-9, (__import__("time").monotonic() - rep.t0)) * 3600)
        rep.cov["distinct_orders"] = len(rep.distinct)
        rep.assumptions += ["generated worlds stay inside the quantifier: unique module names, no ambiguous imports, no operator generics, no PRIVATE lists of imported names",
                            "forked variants are confirmed from a cold process before a violation is reported",
                            "a clean batch is evidence over the seeds explored, not proof"]
        return rep.finish()
    finally:
        O.wipe(batch)


if __name__ == "__main__":
    sys.exit(main())
