#!/venv/bin/python
"""C16 -- links into an externalised project.

Two parties with their own life cycles and a channel between them: project A
(documented with `externalize`), its *published copy*, and project B that
lists A as an external project through a local path or through a simulated
HTTP peer (SimNet).  A seeded history of operations -- buildA(options),
publish(atomic | torn | truncated | missing), corrupt(stored modules.json),
netfault(kind), buildB(via), buildB_noext -- is executed with every build a
cold, fully simulated real FORD run.  Invariants (DESIGN.md 5.5):
 I1 buildB survives whatever the channel holds;
 I2 on a consistent channel every link of B into A names an existing page of A
    documenting that entity, and every public entity of A that B uses,
    extends or references is such a link;
 I3 A's modules.json lists exactly A's modules with their public entities
    (C06 reference model);
 I4 entities B defines itself link to B's own pages;
 I5 on a faulty channel B's output equals the output built without `external`
    except for the links.
"""
import copy
import json
import os
import re
import shutil
import sys
import time

sys.path.insert(0, os.path.dirname(os.path.dirname(os.path.abspath(__file__))))
from fordsim import check, seeds, usemodel, world as W  # noqa: E402
from fordsim import orchestrate as O  # noqa: E402
from fordsim.simnet import FAULTS as NET_FAULTS  # noqa: E402

PROP = "C16"
URL = "https://a.example/docs/"
CORRUPT = ["flip", "emptied", "html", "truncated", "missing", "shape_list_of_str", "shape_no_url", "shape_no_name",
           "shape_no_obj", "shape_bad_kind", "shape_wrong_types", "shape_null", "shape_modules_not_list", "non_utf8",
           "directory"]
from fordsim.simnet import SHAPES  # noqa: E402


# --------------------------------------------------------------------- worlds
def gen_case(seed, idx):
    rng = seeds.stream(seed, PROP, idx, "world")
    w = W.gen_modgraph(rng, {"max_mods": 6, "min_mods": 3, "max_ents": 4, "intrinsic_names": False, "extras": False,
                             "inner_uses": True})
    nm = len(w["mods"])
    k = rng.randint(1, nm - 1)
    a_names = [m["name"] for m in w["mods"][:k]]
    # name clash: B defines a module with the name of an A module that no B unit uses
    used_by_b = set()
    for u in w["mods"][k:] + w["progs"] + w["extprocs"]:
        for x in u["uses"]:
            used_by_b.add(x["mod"])
        for e in u.get("ents", []):
            for x in e.get("uses") or []:
                used_by_b.add(x["mod"])
    clash = None
    free = [n for n in a_names if n not in used_by_b]
    if free and rng.random() < 0.6:
        clash = rng.choice(free)
    # the history
    hist = []
    a_opts = lambda: {"display": rng.choice([["public", "protected"], ["public", "private", "protected"], ["public"]]),  # noqa: E731
                      "hide_undoc": rng.random() < 0.3, "proc_internals": rng.random() < 0.4,
                      "sort": rng.choice(["src", "alpha", "permission", "type-alpha"]), "externalize": True}
    hist.append(["buildA", a_opts()])
    hist.append(["publish", "atomic"])
    hist.append(["buildB", rng.choice(["local", "remote"])])
    if rng.random() < 0.5:
        hist.append(["buildB", "remote" if hist[-1][1] == "local" else "local"])
    for _ in range(rng.randint(1, 3)):
        r = rng.random()
        if r < 0.3:
            o = a_opts()
            if rng.random() < 0.25:
                o["externalize"] = False
            hist.append(["buildA", o])
            hist.append(["publish", rng.choice(["atomic", "atomic", "torn_old_json", "truncated", "missing"])])
        elif r < 0.42:
            # a rebuild of A that dies part-way through its write-out (kill -9 or a full disk at the n-th page),
            # published as it is
            o = a_opts()
            hist.append(["buildA_crash", {"opts": o, "action": rng.choice(["kill", "errno"]), "nth": rng.randint(1, 6),
                                          "what": rng.choice(["html", "html", "css", "any-write"])}])
            hist.append(["publish", "atomic"])
        elif r < 0.7:
            hist.append(["corrupt", rng.choice(CORRUPT)])
        else:
            hist.append(["netfault", rng.choice(NET_FAULTS)])
        via = "remote" if hist[-1][0] == "netfault" else rng.choice(["local", "remote"])
        hist.append(["buildB", via])
    hist.append(["buildB_noext", None])
    # entities B defines itself with the names of public entities of A (of the same and of another kind)
    own = None
    a_types = [e["name"] for m in w["mods"][:k] for e in m["ents"] if e["kind"] == "type" and usemodel.effective_access(m, e) == "public"]
    a_subs = [e["name"] for m in w["mods"][:k] for e in m["ents"] if e["kind"] in ("sub", "func") and usemodel.effective_access(m, e) == "public"]
    if (a_types or a_subs) and rng.random() < 0.6:
        own = {"proc_named_like_type": rng.choice(a_types) if a_types and rng.random() < 0.7 else None,
               "proc_named_like_proc": rng.choice(a_subs) if a_subs and rng.random() < 0.7 else None}
    zsplit = 0
    if k >= 2 and rng.random() < 0.4:
        zsplit = rng.randint(1, k - 1)   # a third project Z that A itself lists as external (chain Z -> A -> B)
    if clash and clash in [m["name"] for m in w["mods"][:zsplit]]:
        clash = None
    return {"idx": idx, "world": w, "split": k, "zsplit": zsplit, "clash": clash, "own": own, "history": hist,
            "b_refs": rng.random() < 0.8, "url_trailing_slash": rng.random() < 0.5,
            "local_abs": rng.random() < 0.3, "b_cwd": rng.choice(["proj", "proj", "parent"]),
            "label": rng.choice(["a", "a", "remote", "mpi", "omp_lib", "iso_c_binding", "a_docs"]),
            "second_external": rng.choice([None, None, "missing_local", "unreachable_remote", "garbage_local"])}


def a_exports(case):
    tables, exports = usemodel.solve(case["world"])
    return tables, exports


def build_files(case, seed):
    """-> (filesA, filesB_base) ; project files are written per build."""
    w = case["world"]
    k = case["split"]
    src = {}
    rr = seeds.stream(seed, PROP, case["idx"], "render")
    z = case.get("zsplit", 0)
    z_mods = w["mods"][:z]
    a_mods = w["mods"][z:k]
    b_mods = w["mods"][k:]
    fa, fb = {}, {}
    if z_mods:
        fa["Z/src/z_all.f90"] = "\n\n".join("\n".join(W.render_module(m, rr)) for m in z_mods) + "\n"
    # A: modules in dependency order, two files
    la = []
    for m in a_mods:
        la.append(W.render_module(m, rr))
    half = max(1, len(la) // 2)
    fa["A/src/a_first.f90"] = "\n\n".join("\n".join(x) for x in la[:half]) + "\n"
    if la[half:]:
        fa["A/src/a_second.f90"] = "\n\n".join("\n".join(x) for x in la[half:]) + "\n"
    lb = []
    for m in b_mods:
        lb.append("\n".join(W.render_module(m, rr)))
    for p in w["progs"]:
        L = W.render_prog(p, rr)
        lb.append("\n".join(L))
    for x in w["extprocs"]:
        lb.append("\n".join(W.render_extproc(x, rr)))
    fb["B/src/b_units.f90"] = "\n\n".join(lb) + "\n"
    if case["clash"]:
        c = case["clash"]
        fb["B/src/b_clash.f90"] = ("module %s\n  !! B's own module with the name of a module of A bclashtracerq\n  implicit none\n"
                                   "  integer :: bclash_var\nend module %s\n\nprogram bclashprog\n  !! uses B's own %s: [[%s]]\n  use %s\n"
                                   "  implicit none\n  bclash_var = 1\nend program bclashprog\n" % (c, c, c, c, c))
    own = case.get("own") or {}
    names = [n for n in (own.get("proc_named_like_type"), own.get("proc_named_like_proc")) if n]
    if names:
        L = ["module bownmod", "  !! B's own entities named like public entities of A: " + " ".join("[[%s]]" % n for n in names),
             "  implicit none", "contains"]
        for n in names:
            L += ["  subroutine %s()" % n, "    !! B's own %s bowntracerq" % n, "  end subroutine %s" % n]
        L.append("end module bownmod")
        fb["B/src/b_own.f90"] = "\n".join(L) + "\n"
    return fa, fb


def b_expectations(case):
    """What B refers to in A, from the abstract model: [(B page relpath, link text, A page relpath, fragment|None, why)]"""
    w = case["world"]
    k = case["split"]
    tables, exports = a_exports(case)
    z = case.get("zsplit", 0)
    a_names = {m["name"].lower() for m in w["mods"][z:k]}
    exp = []
    for mname, vname in ref_vars(case):
        exp.append(("index.html", vname, "module/%s.html" % mname, "variable-" + vname, "[[%s:%s]] reference" % (mname, vname)))
    units = [("module", m) for m in w["mods"][k:]] + [("program", p) for p in w["progs"]] + [("proc", x) for x in w["extprocs"]]
    for kind, u in units:
        page = "%s/%s.html" % (kind, u["name"].lower())
        t = tables[u["name"].lower()]
        for x in u["uses"]:
            if x["mod"].lower() in a_names:
                exp.append((page, x["mod"].lower(), "module/%s.html" % x["mod"].lower(), None, "USE of A's module"))
        for e in u.get("ents", []):
            if e.get("vtype"):
                o = t["types"].get(e["vtype"].lower())
                if o and o[0] in a_names:
                    exp.append((page, o[1], "type/%s.html" % o[1], None, "variable %s of A's type" % e["name"]))
            if e.get("extends"):
                o = t["types"].get(e["extends"].lower())
                if o and o[0] in a_names:
                    exp.append(("type/%s.html" % e["name"].lower(), o[1], "type/%s.html" % o[1], None, "type %s extends A's type" % e["name"]))
            if kind == "module" and e.get("argtype") and e["kind"] in ("iface", "sub"):
                # dummy argument of a module procedure / interface body, typed through a name its own USE may import
                inner = usemodel.inner_scopes({"mods": [u]}, exports, tables)["%s::%s" % (u["name"].lower(), e["name"].lower())]
                tt = inner["imports"]["types"] if e["kind"] == "iface" else inner["table"]["types"]
                o = tt.get(e["argtype"].lower())
                if o and o[0] in a_names:
                    exp.append(("%s/%s.html" % ("interface" if e["kind"] == "iface" else "proc", e["name"].lower()), o[1],
                                "type/%s.html" % o[1], None, "dummy argument of %s of A's type" % e["name"]))
    return exp


def ref_vars(case):
    """public module variables of A that B's front page references as [[module:variable]] (anchor links)"""
    w = case["world"]
    out = []
    if not case.get("b_refs"):
        return out
    for m in w["mods"][case.get("zsplit", 0): case["split"]]:
        if case.get("clash") and m["name"] == case["clash"]:
            continue   # B defines a module of that name itself: its own module wins (I4)
        for e in m["ents"]:
            if e["kind"] in ("var", "param") and usemodel.effective_access(m, e) in ("public", "protected"):
                out.append((m["name"].lower(), e["name"].lower()))
                break
    return out[:2]


def project_file(opts, body):
    return W.render_project_file(opts, body)


# ------------------------------------------------------------------- channel
def publish(root, mode, rng, state):
    doc = os.path.join(root, "A", "doc")
    pub = os.path.join(root, "pub")
    old_json = None
    if os.path.isfile(pub + "/modules.json"):
        old_json = open(pub + "/modules.json", "rb").read()
    O.wipe(pub)
    if not os.path.isdir(doc):
        os.makedirs(pub)
        return "missing"
    shutil.copytree(doc, pub, symlinks=True)
    mj = pub + "/modules.json"
    if not os.path.isfile(mj):
        return "missing"
    if mode == "atomic":
        return "consistent"
    if mode == "torn_old_json":
        if old_json is None:
            return "consistent"
        open(mj, "wb").write(old_json)
        return "stale"
    if mode == "truncated":
        data = open(mj, "rb").read()
        cut = rng.randrange(0, len(data))
        open(mj, "wb").write(data[:cut])
        return "corrupt"
    if mode == "missing":
        os.unlink(mj)
        return "missing"
    raise ValueError(mode)


def corrupt(root, kind, rng):
    mj = os.path.join(root, "pub", "modules.json")
    data = open(mj, "rb").read() if os.path.isfile(mj) else b"{}"
    if os.path.isdir(mj):
        return "corrupt"
    if kind == "flip":
        b = bytearray(data or b"{}")
        for _ in range(rng.randint(1, 4)):
            i = rng.randrange(len(b))
            b[i] ^= 1 << rng.randrange(8)
        new = bytes(b)
    elif kind == "emptied":
        new = b""
    elif kind == "html":
        new = b"<!DOCTYPE html><html><body>404 not found</body></html>"
    elif kind == "truncated":
        new = data[: rng.randrange(0, max(1, len(data)))]
    elif kind == "missing":
        if os.path.isfile(mj):
            os.unlink(mj)
        return "missing"
    elif kind == "non_utf8":
        new = b"\xff\xfe" + data[:30] + b"\xc3\x28"
    elif kind == "directory":
        if os.path.isfile(mj):
            os.unlink(mj)
        os.makedirs(mj, exist_ok=True)
        return "corrupt"
    else:
        new = SHAPES[kind]
    open(mj, "wb").write(new)
    if kind == "flip":
        try:
            if json.loads(new.decode("utf8")) == json.loads(data.decode("utf8")):
                return "consistent-ish"
        except Exception:  # noqa: BLE001
            pass
        return "corrupt-flip"
    return "corrupt"


# --------------------------------------------------------------------- checks
A_RE = re.compile(r'''<a\s+[^>]*?href\s*=\s*(?:"([^"]*)"|'([^']*)')[^>]*>(.*?)</a>''', re.I | re.S)


def links_of(path):
    html = open(path, errors="replace").read()
    out = []
    for m in A_RE.finditer(html):
        url = m.group(1) if m.group(1) is not None else m.group(2)
        text = re.sub(r"<[^>]+>", "", m.group(3)).strip()
        out.append((url, text))
    return out, html


def into_a(url, page_path, pub, via):
    """-> relative path inside A's published tree (with fragment) or None"""
    if url.startswith(URL):
        return url[len(URL):]
    if re.match(r"^[a-z][a-z0-9+.-]*:", url, re.I) or url.startswith("#"):
        return None
    target = url.split("#")[0]
    frag = url.split("#")[1] if "#" in url else None
    ap = os.path.normpath(os.path.join(os.path.dirname(page_path), target)) if not os.path.isabs(target) else os.path.normpath(target)
    if ap == pub or ap.startswith(pub + "/"):
        rel = os.path.relpath(ap, pub)
        return rel + ("#" + frag if frag else "")
    return None


def strip_links(html):
    html = re.sub(r"<a\s[^>]*>", "", html, flags=re.I)
    html = re.sub(r"</a>", "", html, flags=re.I)
    return re.sub(r"\s+", " ", html)


def check_i2(case, root, via, bdoc):
    """links of B into A on a consistent channel"""
    findings = []
    pub = os.path.join(root, "pub")
    n_links = 0
    pages = {}
    for dp, dns, fns in os.walk(bdoc):
        for f in fns:
            if f.endswith(".html"):
                pages[os.path.relpath(os.path.join(dp, f), bdoc)] = os.path.join(dp, f)
    found = {}
    for rel, p in sorted(pages.items()):
        links, html = links_of(p)
        for url, text in links:
            if url.split("#")[0].rstrip("/") in (".", "..", ""):
                if not url.startswith("#"):
                    findings.append(("I2/link-to-directory/%s" % via, "%s: '%s' is wrapped in a link to '%s' (a directory, not a page)" % (rel, text, url)))
                continue
            t = into_a(url, p, pub, via)
            if t is None:
                if not re.match(r"^[a-z][a-z0-9+.-]*:", url, re.I) and not url.startswith("#") and url.split("#")[0]:
                    tgt0 = url.split("#")[0].split("?")[0]
                    ap = os.path.normpath(os.path.join(os.path.dirname(p), tgt0)) if not os.path.isabs(tgt0) else os.path.normpath(tgt0)
                    if not (ap == bdoc or ap.startswith(bdoc + "/")) and not os.path.isfile(ap):
                        findings.append(("I2/dangling-elsewhere/%s" % via, "%s: link '%s' -> %s leaves B's documentation and leads nowhere" % (rel, text, url)))
                continue
            n_links += 1
            tgt, _, frag = t.partition("#")
            tp = os.path.join(pub, tgt)
            found.setdefault(rel, []).append((text.lower(), tgt, frag))
            if not os.path.isfile(tp):
                findings.append(("I2/dangling/%s" % via, "%s links to %s in A's documentation, which does not exist (link text '%s')" % (rel, t, text)))
                continue
            thtml = open(tp, errors="replace").read()
            if frag and not re.search(r'''(?:id|name)\s*=\s*["']%s["']''' % re.escape(frag), thtml):
                findings.append(("I2/fragment/%s" % via, "%s links to %s but that page has no element with id '%s'" % (rel, t, frag)))
            m = re.search(r"<title>(.*?)</title>", thtml, re.S | re.I)
            title = (m.group(1) if m else "").lower()
            name = text.lower()
            if not frag and name and re.match(r"^\w+$", name) and name not in title and name not in thtml.lower():
                findings.append(("I2/wrong-page/%s" % via, "%s: link '%s' -> %s, but that page does not document '%s' (title %r)" % (rel, text, t, text, title.strip()[:60])))
    # every reference B makes to a public entity of A is such a link
    for page, text, apage, frag, why in b_expectations(case):
        if page not in pages:
            continue  # B's page not generated (e.g. hidden by B's display) -- out of this invariant
        if not os.path.isfile(os.path.join(pub, apage)):
            continue  # A does not document it under its current display options: nothing to link to
        got = found.get(page, [])
        if frag is not None:
            # an anchor inside a page of A: required only if A's page really has that anchor (A may not display
            # the entity under its current options; a link to the page itself is then the best there is)
            ahtml = open(os.path.join(pub, apage), errors="replace").read()
            if not re.search(r'''(?:id|name)\s*=\s*["']%s["']''' % re.escape(frag), ahtml):
                frag = None
                text = None
        if not any(t == apage and (text is None or txt == text) and (frag is None or f == frag) for txt, t, f in got):
            findings.append(("I2/missing-link/%s" % via, "%s: %s '%s' should be a link to %s of A's documentation; links into A on that page: %s"
                             % (page, why, text, apage, sorted(set(got))[:6])))
    return findings, n_links


def check_i3(case, root):
    findings = []
    mj = os.path.join(root, "A", "doc", "modules.json")
    if not os.path.isfile(mj):
        return [("I3/no-modules-json", "buildA with externalize wrote no modules.json")]
    data = json.load(open(mj))
    mods = data["modules"] if isinstance(data, dict) else data
    tables, exports = a_exports(case)
    w = case["world"]
    a_mods = w["mods"][case.get("zsplit", 0): case["split"]]
    want = sorted(m["name"].lower() for m in a_mods)
    got = sorted(m["name"].lower() for m in mods)
    if want != got:
        findings.append(("I3/modules", "modules.json lists modules %s, A has %s" % (got, want)))
    byname = {m["name"].lower(): m for m in mods}
    for m in a_mods:
        j = byname.get(m["name"].lower())
        if j is None:
            continue
        ex = exports[m["name"].lower()]
        a_own = {x["name"].lower() for x in a_mods}
        for cls, key in (("procs", "pub_procs"), ("types", "pub_types"), ("vars", "pub_vars"), ("absints", "pub_absints")):
            for k2, v2 in (j.get(key) or {}).items():
                o = ex[cls].get(k2.lower())
                if o is not None and o[0] not in a_own and v2:
                    findings.append(("I3/foreign-entity-exported/%s" % key,
                                     "modules.json: module %s exports '%s', an entity of %s (another project), as if it were A's own: %s"
                                     % (m["name"], k2, o[0], json.dumps(v2)[:160])))
            have = sorted(k.lower() for k, v in (j.get(key) or {}).items())
            wantn = sorted(ex[cls])
            if have != wantn:
                extra = sorted(set(have) - set(wantn))
                lost = sorted(set(wantn) - set(have))
                findings.append(("I3/%s/%s" % (key, "leak" if extra else "lost"),
                                 "modules.json: module %s exports %s %s, the reference model says %s (extra %s, missing %s)"
                                 % (m["name"], key, have, wantn, extra, lost)))
        # the nested entity lists of an exported module must not describe private entities either
        private = {e["name"].lower() for e in m["ents"] if usemodel.effective_access(m, e) == "private"}
        for key in ("functions", "subroutines", "interfaces", "absinterfaces", "types", "variables"):
            names = {str(x.get("name", "")).lower() for x in (j.get(key) or []) if isinstance(x, dict)}
            leak = sorted(names & private)
            if leak:
                findings.append(("I3/nested-private-leak/%s" % key,
                                 "modules.json: module %s describes its private entities %s in '%s'" % (m["name"], leak, key)))
    return findings


def check_i4(case, root, bdoc):
    findings = []
    own = case.get("own") or {}
    pub = os.path.join(root, "pub")
    p = os.path.join(bdoc, "module", "bownmod.html")
    for key in ("proc_named_like_type", "proc_named_like_proc"):
        n = own.get(key)
        if not n or not os.path.isfile(p):
            continue
        links, html = links_of(p)
        mine = os.path.join(bdoc, "proc", n.lower() + ".html")
        # the [[name]] reference in the module's documentation text (the first link with that text)
        hits = [(u, t) for u, t in links if t.lower() == n.lower()]
        if not os.path.isfile(mine):
            findings.append(("I4/own-entity-page-missing", "B's own procedure %s has no page proc/%s.html" % (n, n.lower())))
        # ... and the same reference on the front page, where the lookup is project-wide
        ip = os.path.join(bdoc, "index.html")
        if os.path.isfile(ip):
            for u, t in links_of(ip)[0]:
                if t.lower() == n.lower() and into_a(u, ip, pub, "any") is not None:
                    findings.append(("I4/external-wins-frontpage/%s" % key, "B defines procedure %s itself, but [[%s]] on B's front page links to A's documentation (%s)" % (n, n, u)))
        for u, t in hits:
            if into_a(u, p, pub, "any") is not None:
                findings.append(("I4/external-wins/%s" % key, "B defines procedure %s itself, but module/bownmod.html links '%s' to A's documentation (%s)" % (n, t, u)))
    if not case["clash"]:
        return findings
    c = case["clash"].lower()
    p = os.path.join(bdoc, "program", "bclashprog.html")
    if not os.path.isfile(p):
        return [("I4/no-page", "B's program bclashprog has no page")]
    links, html = links_of(p)
    pub = os.path.join(root, "pub")
    mine = os.path.join(bdoc, "module", c + ".html")
    if not os.path.isfile(mine):
        findings.append(("I4/own-module-page-missing", "B's own module %s has no page module/%s.html" % (c, c)))
    hits = [(u, t) for u, t in links if t.lower() == c]
    if not hits:
        findings.append(("I4/no-link", "B's program uses B's own module %s but its page has no link with that text" % c))
    for u, t in hits:
        if into_a(u, p, pub, "any") is not None:
            findings.append(("I4/external-wins", "B defines module %s itself, but its program page links '%s' to A's documentation (%s)" % (c, t, u)))
        else:
            ap = os.path.normpath(os.path.join(os.path.dirname(p), u.split("#")[0]))
            if ap != mine:
                findings.append(("I4/wrong-target", "link '%s' on B's program page resolves to %s instead of B's module page" % (t, u)))
    return findings


def text_digest(bdoc):
    out = {}
    for dp, dns, fns in os.walk(bdoc):
        for f in fns:
            p = os.path.join(dp, f)
            rel = os.path.relpath(p, bdoc)
            if f.endswith(".html"):
                out[rel] = O.sha(strip_links(open(p, errors="replace").read()).encode())
            elif f == "search_database.json" or f.endswith(".json"):
                out[rel] = O.sha(open(p, "rb").read())
            else:
                out[rel] = O.sha(open(p, "rb").read())
    return out


# ---------------------------------------------------------------------- runs
def run_ford(root, proj, opts, body, workdir, tag, net=None, clock_seed=0, from_parent=False, faults=None):
    pdir = os.path.join(root, proj)
    with open(os.path.join(pdir, "proj.md"), "w") as f:
        f.write(project_file(opts, body))
    cwd, pf = (root, proj + "/proj.md") if from_parent else (pdir, "proj.md")
    spec = {"sandbox": root, "cwd": cwd, "argv": ["ford", pf], "mode": "full", "order_plan": {"mode": "sorted"},
            "dir_order": "sorted", "clock": {"seed": clock_seed}, "net": net, "faults": faults or []}
    return O.run_cold(spec, workdir, hashseed=0, tag=tag)


def evaluate(case, seed, workdir, history=None):
    root = os.path.join(workdir, "root")
    wk = os.path.join(workdir, "work")
    O.wipe(root)
    fa, fb = build_files(case, seed)
    files = dict(fa)
    files.update(fb)
    files["home/.keep"] = ""
    O.materialise(files, root)
    rng = seeds.stream(seed, PROP, case["idx"], "channel")
    hist = case["history"] if history is None else history
    out = {"findings": [], "harness": [], "n": 0, "probes": {}, "faults": {}, "nontrivial": [], "simtime": 0.0,
           "links_checked": 0, "histories": [" ".join("%s:%s" % (o[0], o[1] if not isinstance(o[1], dict) else "opts") for o in hist)]}
    channel = "absent"
    armed = None
    noext = None
    pending_i5 = []
    bbody = "B project body.\n"
    if case.get("b_refs"):
        k = case["split"]
        refs = [m["name"] for m in case["world"]["mods"][case.get("zsplit", 0):k]]
        bbody += "References: " + " ".join("[[%s]]" % r for r in refs[:3]) + "\n"
        bbody += "Variables: " + " ".join("[[%s:%s]]" % mv for mv in ref_vars(case)) + "\n"
    if case.get("b_refs"):
        # references to public entities of A that carry no documentation (hidden when A is built with hide_undoc)
        k = case["split"]
        und = [e["name"] for m in case["world"]["mods"][case.get("zsplit", 0):k] for e in m["ents"]
               if e.get("undoc") and e["kind"] in ("sub", "func", "type") and usemodel.effective_access(m, e) == "public"
               and not (case.get("own") and e["name"] in (case["own"] or {}).values())]
        if und:
            bbody += "Undocumented in A: " + " ".join("[[%s]]" % n for n in und[:3]) + "\n"
    own_names = [n for n in ((case.get("own") or {}).get("proc_named_like_type"), (case.get("own") or {}).get("proc_named_like_proc")) if n]
    if own_names:
        bbody += "Own: " + " ".join("[[%s]]" % n for n in own_names) + "\n"
    if case.get("zsplit"):
        zo = {"project": "Z", "src_dir": "./src", "output_dir": "./doc", "preprocess": False, "parallel": 0, "search": False,
              "graph": False, "externalize": True}
        r = run_ford(root, "Z", zo, "Z project body.\n", wk, "Z0")
        out["n"] += 1
        if r["status"] != "ok" or r["result"]["outcome"]["kind"] != "ok":
            out["harness"].append("buildZ failed: %s %s" % (r["status"], r["result"] and r["result"]["outcome"]))
            return out
        shutil.copytree(os.path.join(root, "Z", "doc"), os.path.join(root, "pubz"))
        out["probes"]["chain_Z_A_B"] = 1
    bopts_base = {"project": "B", "src_dir": "./src", "output_dir": "./doc", "preprocess": False, "parallel": 0,
                  "search": False, "graph": False, "display": ["public", "private", "protected"]}
    step = 0
    for op, arg in hist:
        step += 1
        if op == "buildA":
            o = {"project": "A", "src_dir": "./src", "output_dir": "./doc", "preprocess": False, "parallel": 0, "search": False,
                 "graph": False}
            o.update(arg)
            if case.get("zsplit"):
                o["external"] = "z = ../pubz"
            r = run_ford(root, "A", o, "A project body.\n", wk, "A%d" % step)
            out["n"] += 1
            if r["status"] == "ok" and r["result"]["outcome"]["kind"] != "ok" and case.get("zsplit"):
                # A is itself a consumer of the (atomically published, consistent) project Z: invariant I1/I2
                # for the pair (Z, A)
                oc = r["result"]["outcome"]
                out["findings"].append(("I1/local/consistent/%s" % oc.get("cls", oc["kind"]),
                                        "building A, which lists the consistently published project Z as external, dies (options %s): %s: %s"
                                        % (json.dumps(arg), oc.get("cls", oc["kind"]), (oc.get("msg") or "")[:300]), step))
                return out
            if r["status"] != "ok" or r["result"]["outcome"]["kind"] != "ok":
                out["harness"].append("buildA failed (generator problem or FORD crash on a valid project): %s %s\n%s"
                                      % (r["status"], r["result"] and r["result"]["outcome"], r["stdout"][-800:]))
                return out
            if arg.get("externalize"):
                for f in check_i3(case, root):
                    out["findings"].append((f[0], f[1], step))
                out["probes"]["I3_checked"] = out["probes"].get("I3_checked", 0) + 1
        elif op == "buildA_crash":
            o = {"project": "A", "src_dir": "./src", "output_dir": "./doc", "preprocess": False, "parallel": 0, "search": False,
                 "graph": False}
            o.update(arg["opts"])
            if case.get("zsplit"):
                o["external"] = "z = ../pubz"
            pat = {"html": r"\.html$", "css": r"/css/", "any-write": r"."}[arg["what"]]
            fl = [{"kind": "open-w", "path_re": pat, "nth": arg["nth"], "action": arg["action"], "errno": "ENOSPC"}]
            r = run_ford(root, "A", o, "A project body.\n", wk, "A%d" % step, faults=fl)
            out["n"] += 1
            crashed = r["status"] == "killed" or (r["status"] == "ok" and r["result"]["outcome"]["kind"] != "ok")
            out["faults"]["buildA_crash_" + arg["action"]] = out["faults"].get("buildA_crash_" + arg["action"], 0) + 1
            if crashed:
                out["probes"]["A_rebuild_died_midway"] = out["probes"].get("A_rebuild_died_midway", 0) + 1
                next_publish_state = "crashed"
            else:
                next_publish_state = None
            crashed_build = crashed
        elif op == "publish":
            channel = publish(root, arg, rng, None)
            if locals().get("crashed_build"):
                channel = "crashed"
                crashed_build = False
            out["faults"]["publish_" + arg] = out["faults"].get("publish_" + arg, 0) + 1
        elif op == "corrupt":
            if channel == "absent":
                continue
            channel = corrupt(root, arg, rng)
            out["faults"]["corrupt_" + arg] = out["faults"].get("corrupt_" + arg, 0) + 1
        elif op == "netfault":
            armed = arg
            out["faults"]["net_" + arg] = out["faults"].get("net_" + arg, 0) + 1
        elif op in ("buildB", "buildB_noext"):
            o = dict(bopts_base)
            net = None
            via = arg
            if op == "buildB":
                if via == "local":
                    # the local path as a user would write it: relative to the project file, or absolute
                    o["external"] = case.get("label", "a") + " = " + (os.path.join(root, "pub") if case.get("local_abs") else "../pub")
                else:
                    # the URL as a user would write it, with or without the trailing slash
                    o["external"] = case.get("label", "a") + " = " + (URL if case.get("url_trailing_slash", True) else URL.rstrip("/"))
                    net = {"routes": [{"prefix": URL, "dir": os.path.join(root, "pub")}]}
                    if armed:
                        net["fault"] = {"kind": armed}
            if op == "buildB" and case.get("second_external"):
                # a second external project that cannot be used: it must cost nothing but its own links
                se = case["second_external"]
                second = {"missing_local": "other = ../no_such_project/doc", "unreachable_remote": "other = https://unreachable.example/doc",
                          "garbage_local": "other = ../garbage"}[se]
                if se == "garbage_local":
                    os.makedirs(os.path.join(root, "garbage"), exist_ok=True)
                    with open(os.path.join(root, "garbage", "modules.json"), "w") as f:
                        f.write('{"modules": [{"name": 3}]}')
                o["external"] = [second, o["external"]] if rng.random() < 0.5 else [o["external"], second]
                if net is None:
                    net = {"routes": []}
            r = run_ford(root, "B", o, bbody, wk, "B%d" % step, net=net, clock_seed=step,
                         from_parent=(case.get("b_cwd") == "parent"))
            out["n"] += 1
            fault_now = armed if (op == "buildB" and via == "remote") else None
            if op == "buildB" and via == "remote":
                armed = None
            if r["status"] != "ok":
                out["harness"].append("buildB: %s\n%s" % (r["status"], r["stdout"][-800:]))
                continue
            if r["result"].get("clock"):
                out["simtime"] += r["result"]["clock"]["advanced"]
            oc = r["result"]["outcome"]
            state = "net:" + fault_now if fault_now else channel
            label = "%s/%s" % (via or "noext", state)
            out["nontrivial"].append((case["idx"], step, label))
            if oc["kind"] != "ok":
                if op == "buildB_noext":
                    out["harness"].append("buildB without external failed: %s" % json.dumps(oc)[:600])
                    continue
                out["findings"].append(("I1/%s/%s/%s" % (via, "netfault" if fault_now else ("consistent" if channel == "consistent" else "faulty-channel"), oc.get("cls", oc["kind"])),
                                        "building B dies when A's description is %s (via %s): %s: %s"
                                        % (state, via, oc.get("cls", oc["kind"]), (oc.get("msg") or "")[:300]), step))
                continue
            bdoc = os.path.join(root, "B", "doc")
            if op == "buildB_noext":
                noext = text_digest(bdoc)
                continue
            for f in check_i4(case, root, bdoc):
                out["findings"].append((f[0], f[1], step))
            if channel == "consistent" and not fault_now:
                fnd, nl = check_i2(case, root, via, bdoc)
                out["links_checked"] += nl
                out["probes"]["I2_checked"] = out["probes"].get("I2_checked", 0) + 1
                if nl:
                    out["probes"]["I2_with_links"] = out["probes"].get("I2_with_links", 0) + 1
                for f in fnd:
                    out["findings"].append((f[0], f[1], step))
            elif channel == "crashed" and not fault_now:
                # whatever the dead rebuild of A left behind: B may have links into A or not, but none may dangle
                fnd, nl = check_i2(case, root, via, bdoc)
                out["probes"]["I2_dangling_checked_after_crashed_rebuild"] = out["probes"].get("I2_dangling_checked_after_crashed_rebuild", 0) + 1
                for f in fnd:
                    if f[0].startswith("I2/dangling") or f[0].startswith("I2/fragment"):
                        out["findings"].append((f[0].replace("I2/", "I2/after-crashed-rebuild/"), f[1], step))
            elif fault_now or channel in ("corrupt", "missing", "absent"):
                pending_i5.append((step, label, text_digest(bdoc)))
    for step, label, dig in pending_i5:
        if noext is None:
            break
        out["probes"]["I5_checked"] = out["probes"].get("I5_checked", 0) + 1
        if dig != noext:
            diff = sorted(k for k in set(dig) | set(noext) if dig.get(k) != noext.get(k))[:6]
            out["findings"].append(("I5/differs", "with a faulty channel (%s) B's output differs from the build without 'external' in more than links: %s" % (label, diff), step))
    return out


def world_task(seed, idx, tier, batch):
    workdir = os.path.join(batch, "w%d" % idx)
    case = gen_case(seed, idx)
    r = evaluate(case, seed, workdir)
    r["idx"] = idx
    r["sample"] = {"history": case["history"], "A_modules": [m["name"] for m in case["world"]["mods"][: case["split"]]],
                   "B_modules": [m["name"] for m in case["world"]["mods"][case["split"]:]], "clash": case["clash"]}
    seen = set()
    f2 = []
    for f in r["findings"]:
        if f[0] not in seen:
            seen.add(f[0])
            f2.append(f)
    r["findings"] = f2
    O.wipe(workdir)
    return r


# --------------------------------------------------------------- minimisation
def candidates(case):
    h = case["history"]
    for i in reversed(range(len(h))):
        if h[i][0] == "buildA" and i == 0:
            continue
        c = copy.deepcopy(case)
        del c["history"][i]
        yield "drop op", c
    if case.get("clash"):
        c = copy.deepcopy(case)
        c["clash"] = None
        yield "no clash", c
    if case.get("own"):
        c = copy.deepcopy(case)
        c["own"] = None
        yield "no own entities", c
    if case.get("zsplit"):
        c = copy.deepcopy(case)
        c["zsplit"] = 0
        yield "no Z (A owns Z's modules)", c
    if case.get("b_refs"):
        c = copy.deepcopy(case)
        c["b_refs"] = False
        yield "no refs", c
    if case.get("local_abs"):
        c = copy.deepcopy(case)
        c["local_abs"] = False
        yield "relative local path", c
    if case.get("second_external"):
        c = copy.deepcopy(case)
        c["second_external"] = None
        yield "no second external", c
    if case.get("b_cwd") == "parent":
        c = copy.deepcopy(case)
        c["b_cwd"] = "proj"
        yield "cwd = project dir", c
    for i, (op, arg) in enumerate(h):
        if op == "buildA":
            for k2, v in sorted(arg.items()):
                if k2 == "externalize":
                    continue
                c = copy.deepcopy(case)
                if isinstance(v, bool) and v:
                    c["history"][i][1][k2] = False
                    yield "A option", c
                elif k2 == "display" and v != ["public", "protected"]:
                    c["history"][i][1][k2] = ["public", "protected"]
                    yield "A display", c
    split = case["split"]
    for desc, w in W.shrink_candidates(case["world"]):
        # keep the A/B split meaningful: recompute from module names
        a_names = [m["name"] for m in case["world"]["mods"][:split]]
        k = len([m for m in w["mods"] if m["name"] in a_names])
        if k < 1 or k >= len(w["mods"]) + (1 if w["progs"] or w["extprocs"] else 0):
            continue
        if not w["mods"][:k]:
            continue
        c = copy.deepcopy(case)
        c["world"] = w
        c["split"] = k
        if case.get("zsplit"):
            z_names = [m["name"] for m in case["world"]["mods"][: case["zsplit"]]]
            c["zsplit"] = len([m for m in w["mods"] if m["name"] in z_names])
            if c["zsplit"] >= k:
                continue
        if c.get("clash") and c["clash"] not in [m["name"] for m in w["mods"][:k]]:
            c["clash"] = None
        yield desc, c


def minimise(case, seed, sig, workdir, budget=90):
    from fordsim import shrink as SH

    def test(cand, slot):
        r = evaluate(cand, seed, os.path.join(workdir, "s%d" % slot))
        return (not r["harness"]) and any(f[0] == sig for f in r["findings"])
    cur, steps = SH.shrink(case, candidates, test, budget=budget, jobs=8)
    return cur


def main():
    args = check.parse_args(PROP)
    rep = check.Report(args, "exploration",
                       "one evaluation = one cold, fully simulated FORD build (A or B) inside a seeded two-party history "
                       "(buildA/publish/corrupt/netfault/buildB); invariants I1-I5 are evaluated after every buildB against the channel state at "
                       "that moment. distinct_nontrivial counts distinct (history, step, via/channel-state) buildB evaluations")
    batch = O.new_batch_dir("c16")
    try:
        if args.replay:
            with open(args.replay) as f:
                case = json.load(f)
            r = evaluate(case["case"], case["seed_used"], os.path.join(batch, "replay"))
            for h in r["harness"]:
                print("HARNESS-ERROR property=%s %s" % (PROP, h))
            hit = [f for f in r["findings"] if f[0] == case["signature"]]
            if hit:
                print("VIOLATION property=%s replay=%s signature=%s :: %s" % (PROP, args.replay, hit[0][0], hit[0][1]))
                return 1
            print("replay: no violation (signature %s not reproduced; got %s)" % (case["signature"], [f[0] for f in r["findings"]]))
            return 2 if r["harness"] else 0
        cdir = os.path.join(check.VERIF, "corpus", PROP)
        n_corpus = 0
        if os.path.isdir(cdir):
            for fn in sorted(os.listdir(cdir)):
                if fn.endswith(".json"):
                    with open(os.path.join(cdir, fn)) as f:
                        case = json.load(f)
                    r = evaluate(case["case"], case["seed_used"], os.path.join(batch, "corpus"))
                    n_corpus += 1
                    rep.cov["evaluations"] += r["n"]
                    for h in r["harness"]:
                        rep.harness_error("corpus %s: %s" % (fn, h))
                    for sig, what, step in r["findings"]:
                        rep.violation(sig, what + " [regression corpus %s]" % fn, {"case": case["case"], "seed_used": case["seed_used"]})
        rep.cov["fixed_regressions_passed"] = n_corpus
        n_worlds = args.worlds or (130 if args.tier == "quick" else 3000)
        budget = args.budget or (70 if args.tier == "quick" else 1500)
        tasks = [(args.seed, i, args.tier, batch) for i in range(n_worlds)]
        worlds = 0
        to_min = []
        hists = set()
        for i, r in O.map_worlds(world_task, tasks, jobs=args.jobs, budget_s=budget):
            if isinstance(r, Exception):
                rep.harness_error("world %d: %r" % (i, r))
                continue
            worlds += 1
            rep.cov["evaluations"] += r["n"]
            rep.cov["cold_runs"] += r["n"]
            rep.cov["simulated_time_s"] += r["simtime"]
            hists.update(r["histories"])
            for h in r["harness"]:
                rep.harness_error("world %d: %s" % (i, h))
            for k, v in r["probes"].items():
                rep.probe(k, v)
            rep.probe("links_into_A_checked", r["links_checked"])
            for k, v in r["faults"].items():
                rep.fault(k, configured=v, fired=v)
            for nt in r["nontrivial"]:
                rep.nontrivial(tuple(nt))
            rep.sample(r["sample"])
            for sig, what, step in r["findings"]:
                if any(e["signature"] == sig for e in rep.known):
                    rep.violation(sig, what, {})
                elif not any(t[1] == sig for t in to_min):
                    to_min.append((i, sig, what))
        rep.count("violations_beyond_cap", max(0, len(to_min) - 12))
        for k, (i, sig, what) in enumerate(to_min[:12]):
            case = gen_case(args.seed, i)
            wd = os.path.join(batch, "min%d" % k)
            mcase = minimise(case, args.seed, sig, wd) if k < 4 else case
            ok = True
            what2 = what
            for c in range(2):
                r = evaluate(mcase, args.seed, os.path.join(wd, "c%d" % c))
                hit = [f for f in r["findings"] if f[0] == sig]
                if not hit:
                    ok = False
                    break
                what2 = hit[0][1]
            if not ok:
                mcase = case
                r = evaluate(mcase, args.seed, os.path.join(wd, "c9"))
                hit = [f for f in r["findings"] if f[0] == sig]
                if not hit:
                    rep.harness_error("finding %s in world %d did not reproduce from cold" % (sig, i))
                    continue
                what2 = hit[0][1]
            fa, fb = build_files(mcase, args.seed)
            rep.violation(sig, what2, {"case": mcase, "seed_used": args.seed, "files_A": fa, "files_B": fb,
                                       "history": mcase["history"], "found_in_world": i})
            O.wipe(wd)
        rep.cov["worlds"] = worlds
        rep.cov["distinct_histories"] = len(hists)
        rep.cov["seeds_per_hour"] = int(worlds / max(1e-9, time.monotonic() - rep.t0) * 3600)
        rep.assumptions += ["I2 is asserted only when the channel holds one atomically published build of A (a publisher's torn copy is not FORD's fault)",
                            "SimNet raises only what urllib/http.client raise for the same event; an indefinitely stalled read is not injected",
                            "I5 compares text with <a> wrappers removed, against a build of B without the 'external' option",
                            "B displays public, private and protected entities so that every reference it makes is rendered"]
        return rep.finish()
    finally:
        O.wipe(batch)


if __name__ == "__main__":
    sys.exit(main())
