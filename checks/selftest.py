#!/venv/bin/python
"""Determinism and shim-completeness self-tests of the simulator.

 --determinism N   N seeded specs (full cold runs with every simulated dimension
                   active: hash seed, permuted set/dir order, SimPool, SimClock,
                   output-dir history, an injected fault), each run twice in
                   different worker processes; op logs, results and output
                   digests must be identical.
 --cross           the same batch digest recomputed in fresh interpreters with
                   another orchestrator PYTHONHASHSEED and another worker count.
 --audit N         N runs repeated under strace: every mutating syscall of the
                   Python process on a sandbox path must correspond to a shim
                   record (and vice versa, by kind and path).
Exit 0 iff everything matched.  `mini(n)` is what every check's quick tier runs.
"""
import hashlib
import json
import os
import re
import subprocess
import sys

sys.path.insert(0, os.path.dirname(os.path.dirname(os.path.abspath(__file__))))
from fordsim import seeds, world as W  # noqa: E402
from fordsim import orchestrate as O  # noqa: E402


def make_spec_case(seed, i):
    rng = seeds.stream(seed, "selftest", i)
    w = W.gen_modgraph(rng, {"max_mods": 4, "min_mods": 2, "max_ents": 3, "dup_names": True, "unknown_uses": True,
                             "extras": True, "families": rng.random() < 0.5})
    src = W.render_sources(w, seeds.stream(seed, "selftest", i, "render"))
    graph = rng.random() < 0.6
    opts = {"project": "ST %d" % i, "src_dir": "./src", "output_dir": "./doc", "preprocess": False, "parallel": 0,
            "search": rng.random() < 0.5, "graph": graph, "externalize": rng.random() < 0.5}
    if graph:
        opts["graph_dir"] = "./doc/graphs"
    files = {"p/" + k: v for k, v in src.items()}
    files["p/proj.md"] = W.render_project_file(opts)
    files["home/.keep"] = ""
    argv = ["ford", "proj.md"]
    par = rng.choice([0, 2, 8]) if graph else 0
    if par:
        argv += ["--config", "parallel = %d" % par]
    faults = []
    if rng.random() < 0.5:
        faults = [{"op": rng.randrange(5, 120), "action": rng.choice(["errno", "errno", "torn"]), "errno": rng.choice(["ENOSPC", "EACCES", "EIO"]), "keep": 7}]
    dims = {"hashseed": rng.randrange(0, 1 << 32), "order_plan": {"mode": "perm", "seed": rng.randrange(1 << 30)},
            "dir_order": {"seed": rng.randrange(1 << 30)}, "pool": {"sim": True, "seed": rng.randrange(1 << 30)},
            "clock": {"seed": rng.randrange(1000), "back_at": rng.choice([None, 2, 4])}, "faults": faults}
    return files, argv, dims


def run_case(seed, i, slot, base):
    files, argv, dims = make_spec_case(seed, i)
    # the same absolute sandbox path for both runs of a spec (a run is a function of code and spec)
    sb = os.path.join(base, "sb%d" % i, "root")
    wk = os.path.join(base, "sb%d" % i, "work%d" % slot)
    O.wipe(sb)
    O.materialise(files, sb)
    spec = {"sandbox": sb, "cwd": sb + "/p", "argv": argv, "mode": "full", "order_plan": dims["order_plan"],
            "dir_order": dims["dir_order"], "pool": dims["pool"], "clock": dims["clock"], "faults": dims["faults"]}
    r = O.run_cold(spec, wk, hashseed=dims["hashseed"], tag="st")
    dig = O.tree_digest(sb + "/p/doc")
    res = r["result"] or {}
    key = {"status": r["status"], "ops": r["ops"], "outcome": (res.get("outcome") or {}).get("kind"),
           "cls": (res.get("outcome") or {}).get("cls"), "n_ops": res.get("n_ops"), "fired": res.get("fired"),
           "file_order": res.get("file_order"), "pool": res.get("pool"), "clock": res.get("clock"),
           "layout": res.get("layout"), "digest": dig}
    blob = json.dumps(key, sort_keys=True)
    return hashlib.sha256(blob.encode()).hexdigest(), {"n_ops": res.get("n_ops"), "status": r["status"], "pool": res.get("pool")}, blob


def _pair(seed, i, base):
    a = run_case(seed, i, 0, base)
    b = run_case(seed, i, 1, base)
    diff = None
    if a[0] != b[0]:
        ja, jb = json.loads(a[2]), json.loads(b[2])
        diff = [k for k in ja if ja[k] != jb[k]]
        if "ops" in diff:
            for k, (x, y) in enumerate(zip(ja["ops"], jb["ops"])):
                if x != y:
                    diff.append({"first_differing_op": k, "run1": x, "run2": y, "n_ops": [len(ja["ops"]), len(jb["ops"])]})
                    break
    return i, a[0], b[0], a[1], diff


def determinism(seed, n, jobs=None, base=None, fixed=False):
    """-> (pairs, mismatches, combined digest, details).  fixed=True runs at one fixed scratch path
    (under an exclusive lock): a run is a function of (code, spec) *including the absolute sandbox
    path* -- the order in which FORD writes independent graph files follows id()-hashed sets, which
    depends on the path string -- so digests are only comparable across interpreters at equal paths."""
    lock = None
    if fixed and base is None:
        import fcntl
        base = os.path.join(O.scratch_root(), "selftest-fixed-path")
        os.makedirs(base, exist_ok=True)
        lock = open(base + ".lock", "w")
        fcntl.flock(lock, fcntl.LOCK_EX)
        O.wipe(base)
        os.makedirs(base)
    base = base or O.new_batch_dir("selftest")
    mism = []
    digs = {}
    info = {}
    try:
        for k, r in O.map_worlds(_pair, [(seed, i, base) for i in range(n)], jobs=jobs):
            if isinstance(r, Exception):
                mism.append("spec %d: harness exception %r" % (k, r))
                continue
            i, a, b, inf, diff = r
            digs[i] = a
            info[i] = inf
            if a != b:
                mism.append("spec %d: runs differ in %s" % (i, diff))
    finally:
        O.wipe(base)
        if lock is not None:
            lock.close()
    combined = hashlib.sha256(json.dumps(sorted(digs.items())).encode()).hexdigest()
    return n, mism, combined, info


def mini(seed, n=3):
    """Reduced self-test for the quick tier of every check. -> dict for the evidence file"""
    pairs, mism, combined, info = determinism(seed, n)
    return {"determinism_pairs": pairs, "mismatches": len(mism), "details": mism[:3], "batch_digest": combined[:16]}


# ------------------------------------------------------------------ strace audit
SYSCALL_KIND = {"mkdir": "mkdir", "mkdirat": "mkdir", "rmdir": "rmdir", "unlink": "unlink", "rename": "rename",
                "renameat": "rename", "renameat2": "rename", "chmod": "chmod", "fchmodat": "chmod",
                "utimensat": "utime", "symlink": "symlink", "symlinkat": "symlink", "link": "link", "linkat": "link",
                "truncate": "truncate"}


def audit_one(seed, i, base):
    files, argv, dims = make_spec_case(seed, i)
    dims["faults"] = []
    sb = os.path.join(base, "au%d" % i, "root")
    wk = os.path.join(base, "au%d" % i, "work")
    O.wipe(sb)
    O.materialise(files, sb)
    os.makedirs(wk, exist_ok=True)
    spec = {"sandbox": sb, "cwd": sb + "/p", "argv": argv, "mode": "full", "order_plan": dims["order_plan"],
            "dir_order": dims["dir_order"], "pool": dims["pool"], "clock": dims["clock"], "faults": [],
            "oplog": os.path.join(wk, "st.oplog")}
    spec_path = os.path.join(wk, "spec.json")
    json.dump(spec, open(spec_path, "w"))
    env = O.base_env(os.path.join(sb, "home"), dims["hashseed"])
    trace = os.path.join(wk, "strace.out")
    cmd = ["strace", "-f", "-qq", "-y", "-e", "trace=mkdir,mkdirat,rmdir,unlink,unlinkat,rename,renameat,renameat2,chmod,fchmodat,utimensat,symlink,symlinkat,link,linkat,truncate,openat,open,creat,execve,clone,clone3,fork,vfork",
           "-o", trace, "setarch", "-R", O.PY, "-m", "fordsim.run_one", spec_path, os.path.join(wk, "res.json")]
    p = subprocess.run(cmd, cwd=O.VERIF, env=env, stdout=subprocess.DEVNULL, stderr=subprocess.DEVNULL, timeout=300)
    if not os.path.exists(trace):
        return {"error": "strace produced no output (ptrace not permitted?)", "rc": p.returncode}
    # which pids are python (not dot children): the first pid and pids that never execve'd something else
    dotpids = set()
    first = None
    sys_ops = []
    for line in open(trace, errors="replace"):
        m = re.match(r"^(\d+)\s+(\w+)\((.*)", line)
        if not m:
            continue
        pid, call, rest = int(m.group(1)), m.group(2), m.group(3)
        if first is None:
            first = pid
        if call == "execve":
            if "python" not in rest.split(",")[0] and "setarch" not in rest.split(",")[0]:
                dotpids.add(pid)
            continue
        if pid in dotpids or "= -1 " in line:
            continue
        if call in ("openat", "open", "creat"):
            if not re.search(r"O_WRONLY|O_RDWR|O_CREAT|O_TRUNC|O_APPEND", rest) and call != "creat":
                continue
            kind = "open-w"
        elif call == "unlinkat":
            kind = "rmdir" if "AT_REMOVEDIR" in rest else "unlink"
        else:
            kind = SYSCALL_KIND.get(call)
            if kind is None:
                continue
        paths = re.findall(r'"((?:[^"\\]|\\.)*)"', rest)
        fds = re.findall(r"(?:AT_FDCWD|\d+)<([^>]*)>", rest)
        full = []
        for q in paths:
            if q.startswith("/"):
                full.append(q)
            elif fds:
                full.append(os.path.normpath(os.path.join(fds[0], q)))
        full = [q for q in full if q.startswith(sb + "/") or q == sb]
        if not full:
            continue
        sys_ops.append((kind, os.path.relpath(os.path.realpath(os.path.dirname(full[-1])) + "/" + os.path.basename(full[-1]), sb)))
    shim_ops = []
    failed = set()
    lines = [json.loads(l) for l in open(spec["oplog"]) if l.strip()]
    for op in lines:
        if op and op[0] == "fail":
            failed.add(op[1])
    for op in lines:
        if not isinstance(op[0], int) or op[0] in failed or not op[1]:
            continue
        kind = op[2]
        if kind in ("os.open-w",):
            kind = "open-w"
        if kind in ("mkdir", "rmdir", "unlink", "rename", "chmod", "utime", "symlink", "link", "truncate", "open-w"):
            path = op[4] if kind == "rename" else op[3]
            shim_ops.append((kind, path))
    from collections import Counter
    cs, ch = Counter(sys_ops), Counter(shim_ops)
    missing = cs - ch   # syscalls the shim did not see
    extra = ch - cs     # shim records without a syscall
    return {"syscalls": sum(cs.values()), "shim": sum(ch.values()), "missed_by_shim": sorted(missing.elements())[:10],
            "shim_without_syscall": sorted(extra.elements())[:10]}


def main():
    import argparse
    ap = argparse.ArgumentParser()
    ap.add_argument("--determinism", type=int, default=0)
    ap.add_argument("--cross", action="store_true")
    ap.add_argument("--audit", type=int, default=0)
    ap.add_argument("--digest-only", type=int, default=0)
    a = ap.parse_args()
    seed = int(os.environ.get("VERIF_SEED", "0"))
    rc = 0
    if a.digest_only:
        n, mism, combined, info = determinism(seed, a.digest_only, fixed=True)
        print("DIGEST %s mismatches=%d" % (combined, len(mism)))
        return 1 if mism else 0
    if a.determinism:
        n, mism, combined, info = determinism(seed, a.determinism, fixed=a.cross)
        print("determinism: %d specs run twice, %d mismatches, batch digest %s" % (n, len(mism), combined[:16]))
        for m in mism[:10]:
            print("  MISMATCH", m)
        rc |= 1 if mism else 0
        if a.cross:
            outs = []
            for hs, jobs in (("123", "4"), ("98765", "16")):
                env = dict(os.environ, PYTHONHASHSEED=hs, VERIF_JOBS=jobs, VERIF_SEED=str(seed))
                p = subprocess.run([O.PY, os.path.abspath(__file__), "--digest-only", str(a.determinism)], env=env,
                                   capture_output=True, text=True, timeout=3600)
                outs.append(p.stdout.strip().splitlines()[-1] if p.stdout.strip() else "no output: " + p.stderr[-300:])
            ok = all(o.startswith("DIGEST " + combined + " mismatches=0") for o in outs)
            print("cross-check (orchestrator PYTHONHASHSEED 123/98765, jobs 4/16): %s" % ("identical" if ok else "DIFFERENT: %s" % outs))
            rc |= 0 if ok else 1
    if a.audit:
        base = O.new_batch_dir("audit")
        try:
            bad = 0
            for i in range(a.audit):
                r = audit_one(seed, 1000 + i, base)
                print("audit %d: %s" % (i, json.dumps(r)))
                if r.get("error") or r.get("missed_by_shim"):
                    bad += 1
            rc |= 1 if bad else 0
        finally:
            O.wipe(base)
    return rc


if __name__ == "__main__":
    sys.exit(main())
