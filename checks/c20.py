#!/venv/bin/python
"""C20 -- an unparseable file is skipped without disturbing the rest; FORD
always terminates; a rejected file is named.

Deterministic simulation with storage-fault injection: a valid generated world
plus 1-3 files damaged the way storage damages them (truncation at statement
and byte boundaries, splice, lost block, bit flips, undecodable bytes, empty,
directory in place of a file, unbalanced END, misplaced CONTAINS, malformed
constructs) or made unreadable/vanishing by a simulated errno at open(),
placed before, between and after the valid files in the read order.  Each
variant runs the real Project()+correlate()+markdown() in a forked child of one
cold process under a deterministic step budget and a wall watchdog; oracle:
canonical dump of every valid file == the dump with the damaged files absent.
"""
import copy
import json
import os
import sys
import time

sys.path.insert(0, os.path.dirname(os.path.dirname(os.path.abspath(__file__))))
from fordsim import check, seeds, corrupt, world as W  # noqa: E402
from fordsim import orchestrate as O  # noqa: E402

PROP = "C20"
OPTIONS = {"project": "W", "src_dir": "./src", "output_dir": "./doc", "preprocess": False, "parallel": 0,
           "search": False, "graph": False, "include": "./inc"}
PREFIX = "zz"
# every world also has one valid file that INCLUDEs a file found through the `include` setting, so that a
# rejected file can be seen to disturb how *another* file's include is resolved (seeded change C20-r7-1)
INC_USER = "src/zzz_incuser.f90"
INC_FILES = {"p/" + INC_USER: "module zzincuser\n  !! uses a shared include file\n  implicit none\n  include \"zzshared.inc\"\nend module zzincuser\n",
             "p/inc/zzshared.inc": "  integer :: zz_from_include_dir  !! declared in the include directory\n"}
STATED = {"bad_namelist", "semicolon_tail", "ends_in_predoc", "many_rejected", "surplus_end_append", "surplus_end_tail", "copy_end_at_eof", "copy_trunc_stmt", "copy_extra_end", "copy_trunc_byte", "trunc_stmt", "trunc_byte", "splice", "lost_block", "byteflip", "undecodable", "empty", "whitespace",
          "extra_end", "missing_end", "dup_contains", "misplaced_contains", "malformed", "binary", "long_line",
          "crlf_mix"}


def gen_case(seed, idx):
    rng = seeds.stream(seed, PROP, idx, "world")
    w = W.gen_modgraph(rng, {"max_mods": 4, "min_mods": 1, "max_ents": 4, "dup_names": True,
                             "unknown_uses": rng.random() < 0.5, "extras": rng.random() < 0.5})
    # one self-contained file: a text that is complete and valid on its own before it is damaged
    zz = W.gen_modgraph(seeds.stream(seed, PROP, idx, "zzworld"), {"max_mods": 3, "min_mods": 1, "max_ents": 4, "prefix": PREFIX,
                                                                    "extras": True, "n_files": 1})
    zsrc = W.render_sources(zz, seeds.stream(seed, PROP, idx, "zzrender"))
    texts = corrupt.base_texts(PREFIX) + list(zsrc.values())
    src = W.render_sources(w, seeds.stream(seed, PROP, idx, "render"))
    valid = sorted(src)
    sets = []
    frng = seeds.stream(seed, PROP, idx, "fault")
    n_sets = 10
    for j in range(n_sets):
        k = frng.choice([1, 1, 1, 2, 3])
        damaged = corrupt.corruptions(frng, texts, PREFIX, k)
        entry = {"files": {}, "kinds": {}}
        for i, (kind, content) in enumerate(damaged):
            pos = frng.choice(["first", "between", "last"])
            ext = frng.choice(["f90", "f90", "f90", "f90", "F90", "f"])
            if pos == "first":
                name = "src/aaa_bad%d_%d.%s" % (j, i, ext)
            elif pos == "last":
                name = "src/zzzz_bad%d_%d.%s" % (j, i, ext)
            else:
                anchor = frng.choice(valid)
                name = anchor[: -len(".f90")] + "_bad%d_%d.%s" % (j, i, ext)
            if isinstance(content, str):
                content = content.replace("__SELF__", os.path.basename(name))
            entry["files"][name] = content
            entry["kinds"][name] = kind + "@" + pos
        sets.append(entry)
    # damaged *copies of the valid files themselves* (a truncated backup, an older copy with a stray END):
    # they define the same names as the valid files, so containment is only asserted when FORD rejects them
    for j in range(4):
        v = frng.choice(valid)
        text = src[v]
        lines = text.split("\n")
        how = frng.choice(["end_at_eof", "end_at_eof", "trunc_stmt", "trunc_stmt", "extra_end", "trunc_byte"])
        if how == "end_at_eof":
            dmg = text + frng.choice(["end\n", "end module\n", "end subroutine nothing\n", "contains\nend\n"])
        elif how == "trunc_stmt":
            dmg = "\n".join(lines[: frng.randrange(1, len(lines))]) + "\n"
        elif how == "extra_end":
            i = frng.randrange(0, len(lines))
            dmg = "\n".join(lines[:i] + [frng.choice(["end", "end module", "end type", "end interface"])] + lines[i:]) + "\n"
        else:
            dmg = text[: frng.randrange(1, len(text))]
        pos = frng.choice(["first", "first", "last"])
        name = "src/%s_copy%d.f90" % ("aaa" if pos == "first" else "zzzz", j)
        sets.append({"files": {name: dmg}, "kinds": {name: "copy_%s@%s" % (how, pos)}, "copy_of_valid": True})
    # an unbalanced END at file level -- a complete valid text followed by a surplus END statement, or the
    # tail of a main program whose head was lost: such a file cannot be parsed and must be rejected and named
    for j in range(3):
        how = frng.choice(["append", "append", "tail"])
        if how == "append":
            base = frng.choice(texts)
            dmg = base.rstrip("\n") + "\n" + frng.choice(["end", "end program", "end program %smain" % PREFIX, "end module",
                                                       "end subroutine %snothing" % PREFIX, "END PROGRAM", "end  program  %sp" % PREFIX]) + "\n"
        else:
            dmg = ("contains\n  subroutine %stail%d()\n    !! tail helper\n  end subroutine %stail%d\nend program %smain\n"
                   % (PREFIX, j, PREFIX, j, PREFIX)) if frng.random() < 0.5 else \
                  ("  integer :: %stv%d\n  %stv%d = 1\nend program %smain\n" % (PREFIX, j, PREFIX, j, PREFIX))
        pos = frng.choice(["first", "last", "first"])
        name = "src/%s_surplus%d.f90" % ("aaa" if pos == "first" else "zzzz", j)
        sets.append({"files": {name: dmg}, "kinds": {name: "surplus_end_%s@%s" % (how, pos)}, "must_reject": True})
    # faults in reading: a dangling symlink in place of a source file, include files that are missing,
    # undecodable, or included by a file that is otherwise fine
    for j in range(3):
        how = frng.choice(["dangling", "inc_missing", "inc_missing_h", "inc_undecodable", "inc_self_cycle"])
        pos = frng.choice(["aaa", "zzzz", "mmm"])
        name = "src/%s_rd%d.f90" % (pos, j)
        fset = {}
        if how == "dangling":
            fset[name] = {"symlink": "no/such/target.f90"}
        elif how == "inc_missing":
            fset[name] = "module %sinc%d\n  integer :: %siv%d\n  include \"%s_nowhere.inc\"\nend module %sinc%d\n" % (PREFIX, j, PREFIX, j, PREFIX, PREFIX, j)
        elif how == "inc_missing_h":
            fset[name] = "module %sinc%d\n  integer :: %siv%d\n  include \"%s_nowhere.h\"\nend module %sinc%d\n" % (PREFIX, j, PREFIX, j, PREFIX, PREFIX, j)
        elif how == "inc_undecodable":
            fset[name] = "module %sinc%d\n  include \"%sbad%d.inc\"\nend module %sinc%d\n" % (PREFIX, j, PREFIX, j, PREFIX, j)
            fset["src/%sbad%d.inc" % (PREFIX, j)] = {"b64": "ICBpbnRlZ2VyIDo6IHp6aW5jdmFyCiAgISBjb21tZW50IHdpdGggYSBiYWQgYnl0ZSD/IGhlcmUK"}
        else:
            fset[name] = "module %sinc%d\n  include \"%scyc%d.inc\"\nend module %sinc%d\n" % (PREFIX, j, PREFIX, j, PREFIX, j)
            fset["src/%scyc%d.inc" % (PREFIX, j)] = "  include \"%scyc%d.inc\"\n" % (PREFIX, j)
        sets.append({"files": fset, "kinds": {name: "read_%s@%s" % (how, {"aaa": "first", "zzzz": "last", "mmm": "between"}[pos])},
                     "only_named": [name]})
    # a damaged file in a directory of its own that also holds an include file named like the one the valid
    # INC_USER finds through the `include` setting: the rejected file must not change where that is found
    for j in range(1):
        dn = "src/%s_d%d" % (frng.choice(["aaa", "aaa", "mmm"]), j)
        name = "%s/%sbrk%d.f90" % (dn, PREFIX, j)
        dmg = frng.choice(["module %sbrk%d\n  implicit none\n  integer :: never_finished\ncontains\n  subroutine s()\n" % (PREFIX, j),
                           "module %sbrk%d\nend module %sbrk%d\nend\n" % (PREFIX, j, PREFIX, j)])
        sets.append({"files": {name: dmg, dn + "/zzshared.inc": "  integer :: zz_from_damaged_dir\n"},
                     "kinds": {name: "trunc_stmt@first"}, "only_named": [name]})
    # many rejected files in one run, under a low limit on open files: each rejected file must be let go of
    if idx % 4 == 0:
        many = {}
        kinds = {}
        for q in range(70):
            name = "src/%s_many%03d.f90" % (frng.choice(["aaa", "mmm", "zzzz"]), q)
            many[name] = frng.choice(["module %sq%d\nend module %sq%d\nend\n" % (PREFIX, q, PREFIX, q),
                                      "contains\n subroutine %st%d()\n end subroutine\nend program %sx\n" % (PREFIX, q, PREFIX)])
            kinds[name] = "many_rejected@any"
        sets.append({"files": many, "kinds": kinds, "must_reject": True, "rlimit_nofile": 48})
    # I/O faults on an otherwise valid extra file
    io = []
    for j in range(2):
        name = "src/%s_io%d.f90" % (frng.choice(["aaa", "mmm", "zzzz"]), j)
        io.append({"file": name, "text": frng.choice(texts), "errno": frng.choice(["ENOENT", "EACCES", "EIO", "EMFILE"]),
                   "nth": frng.choice([1, 1, 2])})
    case = {"idx": idx, "world": w, "sets": sets, "io": io}
    if idx % 10 == 3 and os.path.isdir("/repo/example/src"):
        case["corpus"] = "example"
        # the sets refer to generated file names: keep only those that do not depend on them
        case["sets"] = [x for x in sets if not x.get("copy_of_valid")]
        for x in case["sets"]:
            x["files"] = {(k if not any(k.startswith(v[:-4]) for v in valid) else "src/mmm_" + os.path.basename(k)): c for k, c in x["files"].items()}
            x["kinds"] = {(k if not any(k.startswith(v[:-4]) for v in valid) else "src/mmm_" + os.path.basename(k)): c for k, c in x["kinds"].items()}
    return case


def layout(case, seed):
    if case.get("corpus") == "example":
        # FORD's own example sources (types, interfaces, fixed form, ...) as the valid world
        src = {}
        top = "/repo/example/src"
        for fn in sorted(os.listdir(top)):
            if fn.endswith((".f90", ".f")) and os.path.isfile(os.path.join(top, fn)):
                src["src/" + fn] = open(os.path.join(top, fn), encoding="utf-8").read()
        files = {"p/" + k: v for k, v in src.items()}
        files["p/proj.md"] = W.render_project_file(OPTIONS)
        files["home/.keep"] = ""
        files.update(INC_FILES)
        return files, sorted(["p/" + k for k in src] + ["p/" + INC_USER])
    src = W.render_sources(case["world"], seeds.stream(seed, PROP, case["idx"], "render"))
    files = {"p/" + k: v for k, v in src.items()}
    files["p/proj.md"] = W.render_project_file(OPTIONS)
    files["home/.keep"] = ""
    files.update(INC_FILES)
    return files, sorted(["p/" + k for k in src] + ["p/" + INC_USER])


def size_of(content):
    if isinstance(content, str):
        return len(content.encode())
    if "b64" in content:
        return len(content["b64"]) * 3 // 4
    return 0


def evaluate(case, seed, workdir, sets=None, io=None, full=False):
    """-> dict(findings=[(sig, what, detail)], ...)"""
    files, valid = layout(case, seed)
    sb = os.path.join(workdir, "root")
    O.wipe(sb)
    O.materialise(files, sb)
    sets = case["sets"] if sets is None else sets
    io = case["io"] if io is None else io
    out = {"findings": [], "harness": [], "n": 0, "kinds": {}, "probes": {}, "nontrivial": [], "cold": 1, "oos": {}}
    # pass 1: baseline with step counting
    base = {"driver": "c20_project", "count_steps": True, "dump_files": valid}
    spec = {"sandbox": sb, "cwd": sb + "/p", "argv": ["ford", "proj.md"], "mode": "multi",
            "variants": [base], "wall_limit": 300, "variant_wall_limit": 60}
    r = O.run_cold(spec, os.path.join(workdir, "work"), hashseed=0, timeout=400, tag="base")
    out["n"] += 1
    if r["status"] != "ok" or r["result"]["outcome"]["kind"] != "ok" or r["result"]["driver"][0]["status"] != "ok" \
            or r["result"]["driver"][0]["outcome"]["kind"] != "ok":
        out["harness"].append("baseline failed: %s\n%s" % (r["status"], (r["stdout"] + json.dumps(r.get("result"))[:1500])[-2500:]))
        return out
    b = r["result"]["driver"][0]
    if b["dump"]["crash"] is not None:
        out["harness"].append("FORD crashes on the valid world itself (generator problem): %s" % json.dumps(b["dump"]["crash"])[:800])
        return out
    steps0 = max(1000, b["dump"]["steps"])
    wall0 = b["wall"]
    ref_files = json.dumps(b["dump"]["files"], sort_keys=True)
    ref_lists = json.dumps(b["dump"]["lists"], sort_keys=True)
    variants = []
    meta = []
    for j, s in enumerate(sets):
        nbytes = sum(size_of(c) for c in s["files"].values())
        variants.append({"driver": "c20_project", "fs_patch": {"p/" + k: v for k, v in s["files"].items()},
                         "step_budget": 50 * steps0 + 2000 * nbytes + 20000 * len(s["files"]), "dump_files": valid,
                         "rlimit_nofile": s.get("rlimit_nofile")})
        meta.append(("set", j, s))
    for j, f in enumerate(io):
        variants.append({"driver": "c20_project", "fs_patch": {"p/" + f["file"]: f["text"]},
                         "faults": [{"kind": "open-r", "path_re": os.path.basename(f["file"]).replace(".", r"\.") + "$",
                                     "nth": f["nth"], "action": "errno", "errno": f["errno"]}],
                         "step_budget": 50 * steps0 + 2000 * len(f["text"]), "dump_files": valid})
        meta.append(("io", j, f))
    if not variants:
        return out
    limit = max(10.0, 200 * wall0)
    spec = {"sandbox": sb, "cwd": sb + "/p", "argv": ["ford", "proj.md"], "mode": "multi",
            "variants": variants, "wall_limit": int(limit * len(variants) + 120), "variant_wall_limit": limit}
    r = O.run_cold(spec, os.path.join(workdir, "work"), hashseed=0, timeout=limit * len(variants) + 180, tag="var")
    out["cold"] += 1
    if r["status"] != "ok" or r["result"]["outcome"]["kind"] != "ok":
        out["harness"].append("variant process failed: %s\n%s" % (r["status"], r["stdout"][-1500:]))
        return out
    for v, (typ, j, m) in zip(r["result"]["driver"], meta):
        out["n"] += 1
        if typ == "set":
            kinds = sorted(set(m["kinds"].values()))
            names = sorted(m.get("only_named") or m["files"])
            label = "+".join(sorted({k.split("@")[0] for k in kinds}))
            for k in kinds:
                out["kinds"][k.split("@")[0]] = out["kinds"].get(k.split("@")[0], 0) + 1
                out["probes"]["position_" + k.split("@")[1]] = out["probes"].get("position_" + k.split("@")[1], 0) + 1
            detail = {"damaged": {n: m["files"][n] for n in m["files"]}, "kinds": m["kinds"]}
            rerun = {"sets": [m], "io": []}
        else:
            names = [m["file"]]
            label = "io-%s-open%d" % (m["errno"], m["nth"])
            out["kinds"]["io_" + m["errno"]] = out["kinds"].get("io_" + m["errno"], 0) + 1
            detail = {"io": m}
            rerun = {"sets": [], "io": [m]}
        out["nontrivial"].append((case["idx"], typ, j, label))
        if v["status"] == "timeout":
            out["findings"].append(("hang/wall", "parse did not finish within the wall watchdog (%.0fs = max(10, 200 x fault-free)) with damaged file(s) %s" % (limit, names), dict(detail, rerun=rerun)))
            continue
        if v["status"] != "ok":
            out["harness"].append("variant %s: %s %s" % (label, v["status"], v.get("stdout", "")[-500:]))
            continue
        oc = v["outcome"]
        if oc["kind"] != "ok":
            if oc.get("cls") == "StepBudgetExceeded":
                out["findings"].append(("hang/step-budget", "parse exceeded the deterministic step budget with damaged file(s) %s: %s" % (names, oc.get("msg")), dict(detail, rerun=rerun)))
            else:
                out["findings"].append(("run-aborted/%s" % oc.get("cls", oc["kind"]),
                                        "FORD aborted while reading a project that contains damaged file(s) %s: %s" % (names, json.dumps(oc)[:600]), dict(detail, rerun=rerun)))
            continue
        d = v["dump"]
        if typ == "io" and v.get("fired"):
            out["probes"]["io_fault_fired"] = out["probes"].get("io_fault_fired", 0) + 1
        accepted = set(d["accepted"])
        rejected = [n for n in names if "p/" + n not in accepted]
        if rejected:
            out["probes"]["rejected_file"] = out["probes"].get("rejected_file", 0) + len(rejected)
        if len(rejected) < len(names):
            out["probes"]["accepted_damaged_file"] = out["probes"].get("accepted_damaged_file", 0) + (len(names) - len(rejected))
        if typ == "set" and m.get("must_reject") and len(rejected) < len(names):
            kept = [n for n in names if n not in rejected]
            out["findings"].append(("not-rejected/unbalanced-end", "file %s has an unbalanced END at file level (%s) but FORD kept it%s"
                                    % (kept, label, "" if all(n in v.get("stdout", "") for n in kept) else " and did not even name it in its output"),
                                    dict(detail, rerun=rerun)))
        for n in rejected:
            if n not in v.get("stdout", ""):
                out["findings"].append(("not-named", "FORD rejected %s but its diagnostic output does not name the file" % n, dict(detail, rerun=rerun, stdout=v.get("stdout", "")[-1500:])))
        if d["crash"] is not None:
            c = d["crash"]
            scope = "stated" if typ == "io" or all(k.split("@")[0] in STATED for k in m["kinds"].values()) else "coverage-only"
            if not rejected or len(rejected) < len(names):
                # A damaged file that FORD *accepted* (its parser did not give up on it) took the
                # run down later, in correlate/markdown.  That is outside the property's premise
                # ("a file that cannot be parsed"): the same crash happens for a syntactically valid
                # but inconsistent project.  Tallied, never reported (DESIGN.md 5.4).
                key = "%s after %s [%s]" % (c["cls"], c["stage_reached"], scope)
                out["oos"][key] = out["oos"].get(key, 0) + 1
            else:
                out["findings"].append(("run-crashed-after-reject/%s/after-%s" % (c["cls"], c["stage_reached"]),
                                        "all damaged files %s were rejected, yet the run dies afterwards: %s: %s" % (names, c["cls"], c["msg"][:200]), dict(detail, rerun=rerun, crash=c)))
            continue
        if typ == "set" and m.get("copy_of_valid") and len(rejected) < len(names):
            # an accepted copy defines the same names as the valid file: differences are legitimate clashes
            out["probes"]["accepted_copy_of_valid"] = out["probes"].get("accepted_copy_of_valid", 0) + 1
            continue
        if typ == "set" and m.get("copy_of_valid"):
            out["probes"]["rejected_copy_of_valid"] = out["probes"].get("rejected_copy_of_valid", 0) + 1
        if json.dumps(d["files"], sort_keys=True) != ref_files:
            bad = [f for f in valid if json.dumps(d["files"].get(f), sort_keys=True) != json.dumps(b["dump"]["files"].get(f), sort_keys=True)]
            out["findings"].append(("containment/tree/%s" % ("rejected" if len(rejected) == len(names) else "accepted"),
                                    "the entity tree of valid file(s) %s differs when damaged file(s) %s (%s) are present" % (bad, names, label), dict(detail, rerun=rerun)))
        elif json.dumps(d["lists"], sort_keys=True) != ref_lists:
            out["findings"].append(("containment/lists/%s" % ("rejected" if len(rejected) == len(names) else "accepted"),
                                    "project lists / page stems of valid entities differ when damaged file(s) %s (%s) are present" % (names, label), dict(detail, rerun=rerun)))
    # sampled full HTML runs: all-rejected sets must leave the whole output tree byte-identical
    if full:
        full_sets = [s for s in sets if all(isinstance(c, dict) or s["kinds"][n].split("@")[0] in ("undecodable", "binary", "directory") for n, c in s["files"].items())][:2]
        if full_sets or io:
            fspec = {"sandbox": sb, "cwd": sb + "/p", "argv": ["ford", "proj.md"], "mode": "full",
                     "order_plan": {"mode": "sorted"}, "dir_order": "sorted", "clock": {"seed": 0}}
            O.wipe(sb)
            O.materialise(files, sb)
            r0 = O.run_cold(fspec, os.path.join(workdir, "work"), tag="full0")
            d0 = O.tree_digest(sb + "/p/doc")
            out["n"] += 1
            out["cold"] += 1
            for s in full_sets:
                f2 = dict(files)
                f2.update({"p/" + k: v for k, v in s["files"].items()})
                O.wipe(sb)
                O.materialise(f2, sb)
                r1 = O.run_cold(fspec, os.path.join(workdir, "work"), tag="full1")
                d1 = O.tree_digest(sb + "/p/doc")
                out["n"] += 1
                out["cold"] += 1
                out["probes"]["full_html_runs"] = out["probes"].get("full_html_runs", 0) + 1
                if r0["status"] != "ok" or r1["status"] != "ok":
                    out["harness"].append("full run status %s/%s" % (r0["status"], r1["status"]))
                    continue
                k0, k1 = r0["result"]["outcome"]["kind"], r1["result"]["outcome"]["kind"]
                if k0 == "ok" and (k1 != "ok" or d0 != d1):
                    diff = sorted(k for k in set(d0) | set(d1) if d0.get(k) != d1.get(k))[:8]
                    out["findings"].append(("containment/full-html", "complete HTML output differs (or the run fails: %s) when only rejected damaged file(s) %s are added; differing: %s"
                                            % (r1["result"]["outcome"], sorted(s["files"]), diff), {"damaged": s["files"], "kinds": s["kinds"], "rerun": {"sets": [s], "io": []}}))
            # the same for an extra file that becomes unreadable / vanishes at its first or second open():
            # it must be reported and skipped, leaving the complete output identical to the run without it
            for f in io[:2]:
                f2 = dict(files)
                f2["p/" + f["file"]] = f["text"]
                O.wipe(sb)
                O.materialise(f2, sb)
                ispec = dict(fspec, faults=[{"kind": "open-r", "path_re": os.path.basename(f["file"]).replace(".", r"\.") + "$",
                                             "nth": f["nth"], "action": "errno", "errno": f["errno"]}])
                r1 = O.run_cold(ispec, os.path.join(workdir, "work"), tag="fullio")
                d1 = O.tree_digest(sb + "/p/doc")
                out["n"] += 1
                out["cold"] += 1
                out["probes"]["full_html_io_runs"] = out["probes"].get("full_html_io_runs", 0) + 1
                if r0["status"] != "ok" or r1["status"] != "ok":
                    out["harness"].append("full io run status %s/%s" % (r0["status"], r1["status"]))
                    continue
                if not r1["result"].get("fired"):
                    continue
                k0, k1 = r0["result"]["outcome"]["kind"], r1["result"]["outcome"]["kind"]
                if k0 == "ok" and (k1 != "ok" or d0 != d1):
                    diff = sorted(k for k in set(d0) | set(d1) if d0.get(k) != d1.get(k))[:8]
                    out["findings"].append(("containment/full-html-io", "complete HTML output differs (or the run fails: %s) when an extra file hits %s at open #%d; differing: %s"
                                            % (json.dumps(r1["result"]["outcome"])[:300], f["errno"], f["nth"], diff), {"io": f, "rerun": {"sets": [], "io": [f]}}))
    return out


def world_task(seed, idx, tier, batch):
    workdir = os.path.join(batch, "w%d" % idx)
    case = gen_case(seed, idx)
    r = evaluate(case, seed, workdir, full=(tier == "thorough" and idx % 4 == 0) or idx % 10 == 0)
    r["idx"] = idx
    s0 = case["sets"][0]
    r["sample"] = {"valid_files": layout(case, seed)[1],
                   "damaged_set_0": {n: (c if isinstance(c, dict) else c[:200]) for n, c in s0["files"].items()},
                   "kinds": s0["kinds"], "io": case["io"][:1]}
    seen = set()
    f2 = []
    for f in r["findings"]:
        if f[0] not in seen:
            seen.add(f[0])
            f2.append(f)
    r["findings"] = f2
    O.wipe(workdir)
    return r


# --------------------------------------------------------------- minimisation
def candidates(case):
    """case here has exactly the failing set/io (sets=[s] / io=[f])."""
    for s_i, s in enumerate(case["sets"]):
        if len(s["files"]) > 1:
            for n in sorted(s["files"]):
                if n in (s.get("only_named") or []):
                    continue   # the damaged file itself; its companions (include files) carry no kind
                c = copy.deepcopy(case)
                del c["sets"][s_i]["files"][n]
                c["sets"][s_i]["kinds"].pop(n, None)
                yield "drop damaged file", c
    for desc, w in ([] if case.get("corpus") else W.shrink_candidates(case["world"])):
        if w["mods"] or w["progs"] or w["extprocs"]:
            c = copy.deepcopy(case)
            c["world"] = w
            yield desc, c
    for s_i, s in enumerate(case["sets"]):
        for n, content in sorted(s["files"].items()):
            if not isinstance(content, str):
                continue
            lines = content.split("\n")
            size = max(1, len(lines) // 2)
            while size >= 1:
                for a in range(0, len(lines), size):
                    c = copy.deepcopy(case)
                    c["sets"][s_i]["files"][n] = "\n".join(lines[:a] + lines[a + size:])
                    yield "drop lines", c
                size //= 2


def minimise(case, seed, sig, rerun, workdir, budget=60):
    from fordsim import shrink as SH
    c0 = dict(case, sets=rerun["sets"], io=rerun["io"])

    def test(cand, slot):
        r = evaluate(cand, seed, os.path.join(workdir, "s%d" % slot), full=sig.startswith("containment/full"))
        return (not r["harness"]) and any(f[0] == sig for f in r["findings"])
    cur, steps = SH.shrink(c0, candidates, test, budget=budget)
    return cur


def main():
    args = check.parse_args(PROP)
    rep = check.Report(args, "fault_enumeration",
                       "one evaluation = one real Project()+correlate()+markdown() of a valid generated world plus a set of 1-3 damaged files "
                       "(or an I/O fault at open of an extra file), in a forked child under a step budget; distinct_nontrivial counts distinct "
                       "(world, damaged-set, corruption kinds) cases that were executed and compared with the same world without the damaged files")
    batch = O.new_batch_dir("c20")
    try:
        if args.replay:
            with open(args.replay) as f:
                case = json.load(f)
            r = evaluate(case["case"], case["seed_used"], os.path.join(batch, "replay"), full=case["signature"].startswith("containment/full"))
            for h in r["harness"]:
                print("HARNESS-ERROR property=%s %s" % (PROP, h))
            hit = [f for f in r["findings"] if f[0] == case["signature"]]
            if hit:
                print("VIOLATION property=%s replay=%s signature=%s :: %s" % (PROP, args.replay, hit[0][0], hit[0][1]))
                return 1
            print("replay: no violation (signature %s not reproduced; got %s)" % (case["signature"], [f[0] for f in r["findings"]]))
            return 2 if r["harness"] else 0
        cdir = os.path.join(check.VERIF, "corpus", PROP)
        n_corpus = 0
        if os.path.isdir(cdir):
            for fn in sorted(os.listdir(cdir)):
                if fn.endswith(".json"):
                    with open(os.path.join(cdir, fn)) as f:
                        case = json.load(f)
                    r = evaluate(case["case"], case["seed_used"], os.path.join(batch, "corpus"))
                    n_corpus += 1
                    rep.cov["evaluations"] += r["n"]
                    for h in r["harness"]:
                        rep.harness_error("corpus %s: %s" % (fn, h))
                    for sig, what, detail in r["findings"]:
                        rep.violation(sig, what + " [regression corpus %s]" % fn, {"case": case["case"], "seed_used": case["seed_used"]})
        rep.cov["fixed_regressions_passed"] = n_corpus
        n_worlds = args.worlds or (160 if args.tier == "quick" else 4000)
        budget = args.budget or (70 if args.tier == "quick" else 1500)
        tasks = [(args.seed, i, args.tier, batch) for i in range(n_worlds)]
        worlds = 0
        to_min = []
        for i, r in O.map_worlds(world_task, tasks, jobs=args.jobs, budget_s=budget):
            if isinstance(r, Exception):
                rep.harness_error("world %d: %r" % (i, r))
                continue
            worlds += 1
            rep.cov["evaluations"] += r["n"]
            rep.cov["cold_runs"] += r["cold"]
            rep.cov["forked_variants"] += r["n"] - 1
            for h in r["harness"]:
                rep.harness_error("world %d: %s" % (i, h))
            for k, v in r["kinds"].items():
                rep.fault(k, configured=v, fired=v)
            for k, v in r["probes"].items():
                rep.probe(k, v)
            for nt in r["nontrivial"]:
                rep.nontrivial(tuple(nt))
            for k, v in r["oos"].items():
                rep.count("out_of_scope_crash: " + k, v)
            rep.sample(r["sample"])
            for sig, what, detail in r["findings"]:
                if any(e["signature"] == sig for e in rep.known):
                    rep.violation(sig, what, {})
                elif not any(t[1] == sig for t in to_min):
                    to_min.append((i, sig, what, detail))
        rep.count("violations_beyond_cap", max(0, len(to_min) - 12))
        for k, (i, sig, what, detail) in enumerate(to_min[:12]):
            case = gen_case(args.seed, i)
            wd = os.path.join(batch, "min%d" % k)
            rerun = detail["rerun"]
            if k < 5:
                mcase = minimise(case, args.seed, sig, rerun, wd, budget=50)
            else:
                mcase = dict(case, sets=rerun["sets"], io=rerun["io"])
            ok = True
            what2 = what
            for c in range(2):
                r = evaluate(mcase, args.seed, os.path.join(wd, "c%d" % c), full=sig.startswith("containment/full"))
                hit = [f for f in r["findings"] if f[0] == sig]
                if not hit:
                    ok = False
                    break
                what2 = hit[0][1]
            if not ok:
                rep.harness_error("finding %s in world %d did not reproduce twice from cold" % (sig, i))
                continue
            files, valid = layout(mcase, args.seed)
            rep.violation(sig, what2, {"case": mcase, "seed_used": args.seed, "valid_files": files, "found_in_world": i,
                                       "observed": {k2: v2 for k2, v2 in detail.items() if k2 in ("crash", "kinds", "io")}})
            O.wipe(wd)
        rep.cov["worlds"] = worlds
        rep.cov["seeds_per_hour"] = int(worlds / max(1e-9, time.monotonic() - rep.t0) * 3600)
        rep.assumptions += ["default settings (dbg default, force off); input lines <= 2 KB (bound of the termination check)",
                            "damaged files are derived from sources whose identifiers carry a prefix the valid world never uses, so a damaged file that still parses neither clashes with nor is referenced by the valid files",
                            "step budget = 50 x steps of the fault-free parse + 2000 x bytes of damaged input; wall watchdog = max(10 s, 200 x fault-free time)"]
        return rep.finish()
    finally:
        O.wipe(batch)


if __name__ == "__main__":
    sys.exit(main())
