#!/venv/bin/python
"""C17 -- static pages mirror the page directory, in the documented order
(narrow claim, DESIGN.md 5.6).

What the simulator owns here: the order in which the operating system
enumerates every directory (seeded permutation of each listdir/scandir), and
torn page files (title-loss: a write cut before/inside the metadata header)
placed on leaf pages, on a sub-directory's index.md, on first/last siblings.
Oracle: a reference model of the page tree computed from the abstract tree
with the torn pages removed; the real get_page_tree() must equal it under every
enumeration order and report every torn file.  A sampled cold full run checks
pages, copied files and every link/alias from every nesting depth.
"""
import copy
import json
import os
import re
import sys
import time
import urllib.parse

sys.path.insert(0, os.path.dirname(os.path.dirname(os.path.abspath(__file__))))
from fordsim import check, seeds, pagemodel as PM, world as W  # noqa: E402
from fordsim import orchestrate as O  # noqa: E402

PROP = "C17"
SRC = "module pgmod\n  !! module for page worlds\n  implicit none\ncontains\n  subroutine pgsub()\n    !! a routine\n  end subroutine pgsub\nend module pgmod\n"


def gen_case(seed, idx):
    rng = seeds.stream(seed, PROP, idx, "world")
    latin1 = rng.random() < 0.2
    tree = PM.gen_tree(rng, max_depth=rng.choice([1, 2, 3, 4]), accent=latin1)
    PM.add_links(rng, tree)
    case = {"idx": idx, "tree": tree, "missing_ordered": None, "latin1": latin1}
    if tree["index"] is not None and rng.random() < 0.08:
        case["missing_ordered"] = "nonexistent.md"
    return case


def layout(case):
    tree = case["tree"]
    if case.get("missing_ordered") and tree["index"] is not None:
        tree = copy.deepcopy(tree)
        tree["index"]["ordered_subpage"] = (tree["index"].get("ordered_subpage") or []) + [case["missing_ordered"]]
    files = {"p/" + k: v for k, v in PM.render(tree).items()}
    files["p/src/pgmod.f90"] = SRC
    files["p/media/pic.png"] = "not a real png\n"
    opts = {"project": "Pages", "src_dir": "./src", "output_dir": "./doc", "preprocess": False, "parallel": 0,
            "search": False, "graph": False, "page_dir": "./pages", "media_dir": "./media", "copy_subdir": ["figs", "assets"]}
    if case.get("latin1"):
        # the project option `encoding` applies to every page file at every depth
        opts["encoding"] = "iso-8859-1"
        for k in list(files):
            if k.startswith("p/pages/") and isinstance(files[k], str):
                files[k] = enc_latin1(files[k])
    files["p/proj.md"] = W.render_project_file(opts)
    files["home/.keep"] = ""
    if not any(k.startswith("p/pages/") for k in files):
        files["p/pages"] = {"dir": True}
    return files


def enc_latin1(text):
    import base64
    return {"b64": base64.b64encode(text.replace("\u2192", "->").encode("iso-8859-1", "replace")).decode()}


def torn_variant(case, rng):
    """-> (tree copy with tears applied, fs_patch, [torn relpaths], kinds)"""
    tree = copy.deepcopy(case["tree"])
    pages = [(rel, p, isidx) for rel, p, isidx in PM.all_pages(tree) if p["title"] is not None]
    if not pages:
        return None
    k = rng.choice([1, 1, 2, 3])
    # bias: sub-directory index pages, first/last siblings
    sub_idx = [x for x in pages if x[2] and "/" in x[0]]
    chosen = []
    for _ in range(k):
        r = rng.random()
        if sub_idx and r < 0.3:
            c = rng.choice(sub_idx)
        elif r < 0.5:
            leafs = sorted(x for x in pages if not x[2])
            c = rng.choice([leafs[0], leafs[-1]]) if leafs else rng.choice(pages)
        else:
            c = rng.choice(pages)
        if c[0] == "index.md" and rng.random() < 0.7:
            continue  # tearing the top index is legal but leaves nothing to compare; keep it rare
        if c not in chosen:
            chosen.append(c)
    if not chosen:
        return None
    patch, kinds = {}, {}
    for rel, p, isidx in chosen:
        kind = rng.choice(PM.TEAR_KINDS)
        PM.tear(p, rel, kind)
        patch["p/pages/" + rel] = p["torn_text"]
        kinds[rel] = kind
    return tree, patch, [c[0] for c in chosen], kinds


def cmp_tree(model, real, path="<top>"):
    """-> list of (class, text)"""
    if model is None and real is None:
        return []
    if model is None or real is None:
        return [("node-presence", "%s: model %s, FORD %s" % (path, "present" if model else "absent", "present" if real else "absent"))]
    out = []
    if model["path"] != real["path"]:
        out.append(("path", "%s: path %s vs FORD %s" % (path, model["path"], real["path"])))
    if model["title"] != real["title"]:
        out.append(("title", "%s: title %r vs FORD %r" % (model["path"], model["title"], real["title"])))
    mp = [s["path"] for s in model["subpages"]]
    rp = [s["path"] for s in real["subpages"]]
    if mp != rp:
        if sorted(mp) == sorted(rp):
            out.append(("order", "%s: sub-page order %s vs FORD %s" % (model["path"], mp, rp)))
        else:
            lost = sorted(set(mp) - set(rp))
            extra = sorted(set(rp) - set(mp))
            out.append(("subpages-lost" if lost else "subpages-extra", "%s: sub-pages %s vs FORD %s (lost %s, extra %s)" % (model["path"], mp, rp, lost, extra)))
    if sorted(model["files"]) != sorted(real["files"]):
        out.append(("files", "%s: files to copy %s vs FORD %s" % (model["path"], model["files"], real["files"])))
    elif model["files"] != real["files"]:
        out.append(("files-order", "%s: files %s vs FORD %s" % (model["path"], model["files"], real["files"])))
    rmap = {s["path"]: s for s in real["subpages"]}
    for s in model["subpages"]:
        if s["path"] in rmap:
            out.extend(cmp_tree(s, rmap[s["path"]], s["path"]))
    return out


def evaluate(case, seed, workdir, variants_spec=None, n_orders=4, n_torn=6, full=False):
    files = layout(case)
    sb = os.path.join(workdir, "root")
    O.wipe(sb)
    O.materialise(files, sb)
    rng = seeds.stream(seed, PROP, case["idx"], "variant")
    out = {"findings": [], "harness": [], "n": 0, "probes": {}, "nontrivial": [], "kinds": {}, "cold": 1}
    plan = []
    if variants_spec is not None:
        plan = variants_spec
    else:
        plan.append({"dir_order": "sorted", "tears": None})
        for _ in range(n_orders):
            plan.append({"dir_order": {"seed": rng.randrange(1 << 30)}, "tears": None})
        for _ in range(n_torn):
            tv = torn_variant(case, rng)
            if tv is None:
                continue
            tree, patch, torn, kinds = tv
            plan.append({"dir_order": {"seed": rng.randrange(1 << 30)}, "tears": kinds})
    variants = []
    trees = []
    for pl in plan:
        tree = copy.deepcopy(case["tree"])
        patch = {}
        if pl["tears"]:
            pages = {rel: p for rel, p, isidx in PM.all_pages(tree)}
            for rel, kind in pl["tears"].items():
                if rel in pages:
                    PM.tear(pages[rel], rel, kind)
                    patch["p/pages/" + rel] = enc_latin1(pages[rel]["torn_text"]) if case.get("latin1") else pages[rel]["torn_text"]
        variants.append({"driver": "c17_pagetree", "dir_order": pl["dir_order"], "fs_patch": patch})
        trees.append(tree)
    spec = {"sandbox": sb, "cwd": sb + "/p", "argv": ["ford", "proj.md"], "mode": "multi", "variants": variants,
            "wall_limit": 600, "variant_wall_limit": 60}
    r = O.run_cold(spec, os.path.join(workdir, "work"), hashseed=0, timeout=900)
    if r["status"] != "ok" or r["result"]["outcome"]["kind"] != "ok":
        out["harness"].append("driver process failed: %s %s\n%s" % (r["status"], r["result"] and r["result"]["outcome"], r["stdout"][-1500:]))
        return out
    for v, pl, tree in zip(r["result"]["driver"], plan, trees):
        out["n"] += 1
        label = "torn" if pl["tears"] else "order"
        if pl["tears"]:
            for rel, kind in pl["tears"].items():
                out["kinds"][kind] = out["kinds"].get(kind, 0) + 1
                where = "sub-index" if rel.endswith("index.md") and "/" in rel else ("top-index" if rel == "index.md" else "leaf")
                out["probes"]["torn_" + where] = out["probes"].get("torn_" + where, 0) + 1
        if pl["dir_order"] != "sorted":
            out["probes"]["dir_order_permuted"] = out["probes"].get("dir_order_permuted", 0) + 1
        out["nontrivial"].append((case["idx"], json.dumps(pl, sort_keys=True)))
        if v["status"] != "ok":
            out["harness"].append("variant: %s" % v["status"])
            continue
        model = PM.build_model(tree)
        oc = v["outcome"]
        if case.get("missing_ordered") and tree["index"] is not None and PM.has_title(tree["index"]):
            out["probes"]["ordered_subpage_missing_entry"] = out["probes"].get("ordered_subpage_missing_entry", 0) + 1
            if oc["kind"] == "exception":
                if case["missing_ordered"] not in (oc.get("msg") or ""):
                    out["findings"].append(("missing-ordered-entry/abort-without-name", "abort on an ordered_subpage entry naming a missing file does not name it: %s" % oc.get("msg"), pl))
                continue
        if oc["kind"] != "ok":
            out["findings"].append(("run-failed/%s/%s" % (oc.get("cls", oc["kind"]), label),
                                    "get_page_tree failed (%s): %s" % (label, json.dumps(oc)[:500]), pl))
            continue
        real = v["dump"]["tree"]
        for cls, text in cmp_tree(model, real):
            out["findings"].append(("tree/%s/%s" % (cls, label), "page tree differs from the reference model [%s; %s]: %s" % (label, json.dumps(pl["tears"]), text), pl))
        for rel in PM.expected_warnings(tree):
            if ("pages/" + rel) not in v.get("stdout", ""):
                out["findings"].append(("not-reported/%s" % label, "page file without a title %s was skipped but is not named in the output" % rel, pl))
    if full:
        out["findings"].extend(full_run(case, files, sb, workdir, out))
    return out


HREF_RE = re.compile(r'''(?:href|src)\s*=\s*(?:"([^"]*)"|'([^']*)')''', re.I)
A_RE = re.compile(r'''<a\s+[^>]*href\s*=\s*(?:"([^"]*)"|'([^']*)')[^>]*>(.*?)</a>''', re.I | re.S)
IMG_RE = re.compile(r'''<img\s+[^>]*src\s*=\s*(?:"([^"]*)"|'([^']*)')''', re.I)


def full_run(case, files, sb, workdir, out):
    """One cold full run; check pages exist 1:1, files/assets are copied, every local link resolves."""
    findings = []
    O.wipe(sb)
    O.materialise(files, sb)
    spec = {"sandbox": sb, "cwd": sb + "/p", "argv": ["ford", "proj.md"], "mode": "full", "order_plan": {"mode": "sorted"},
            "dir_order": {"seed": 11 + case["idx"]}, "clock": {"seed": 0}}
    r = O.run_cold(spec, os.path.join(workdir, "work"), tag="full")
    out["n"] += 1
    out["cold"] += 1
    out["probes"]["full_runs"] = out["probes"].get("full_runs", 0) + 1
    if r["status"] != "ok":
        out["harness"].append("full run: %s\n%s" % (r["status"], r["stdout"][-800:]))
        return findings
    model = PM.build_model(case["tree"])
    oc = r["result"]["outcome"]
    if case.get("missing_ordered") and model is not None:
        return findings
    if oc["kind"] != "ok":
        findings.append(("full-run-failed/%s" % oc.get("cls", oc["kind"]), "full run on a page world failed: %s" % json.dumps(oc)[:600], {"full": True}))
        return findings
    doc = sb + "/p/doc"
    pagedir = doc + "/page"
    expect = set(PM.flatten(model)) if model else set()
    have = set()
    if os.path.isdir(pagedir):
        for dp, dns, fns in os.walk(pagedir):
            if "/assets" in dp[len(pagedir):]:
                continue
            for f in fns:
                if f.endswith(".html"):
                    have.add(os.path.relpath(os.path.join(dp, f), pagedir))
    if expect != have:
        findings.append(("full/pages-1to1", "static pages written %s differ from the titled Markdown files %s (missing %s, extra %s)"
                         % (sorted(have), sorted(expect), sorted(expect - have), sorted(have - expect)), {"full": True}))
    # copied files and copy_subdir directories next to their pages
    def node_dirs(d, path=""):
        if d["index"] is None or not PM.has_title(d["index"]):
            return
        yield path, d
        for n, sdir in d["dirs"].items():
            for x in node_dirs(sdir, path + n + "/"):
                yield x
    for path, d in node_dirs(case["tree"]):
        for f in d["files"]:
            src = sb + "/p/pages/" + path + f
            dst = pagedir + "/" + path + f
            if not os.path.isfile(dst) or open(dst, "rb").read() != open(src, "rb").read():
                findings.append(("full/file-not-copied", "file %s%s was not copied next to its page" % (path, f), {"full": True}))
        if d["index"].get("copy_subdir_empty"):
            out["probes"]["copy_subdir_local_override"] = out["probes"].get("copy_subdir_local_override", 0) + 1
            if not any(PM.has_title(p) for p in d["pages"].values()):
                # (with sibling pages FORD copies for each of them with their own -- project-wide -- setting)
                for a in d["assets"]:
                    if os.path.exists(pagedir + "/" + path + a):
                        findings.append(("full/copy_subdir-override-ignored", "%sindex.md overrides copy_subdir with nothing, yet %s%s was copied" % (path, path, a), {"full": True}))
            continue
        for a in d["assets"]:
            for rel in ("img.png", "deep/data.txt"):
                dst = pagedir + "/" + path + a + "/" + rel
                if not os.path.isfile(dst):
                    findings.append(("full/copy_subdir-not-copied", "copy_subdir directory %s%s (file %s) was not copied next to its page" % (path, a, rel), {"full": True}))
            out["probes"]["copy_subdir_checked"] = out["probes"].get("copy_subdir_checked", 0) + 1
    # links
    nlinks = 0
    for rel in sorted(have):
        fpath = os.path.join(pagedir, rel)
        html = open(fpath, errors="replace").read()
        here = os.path.dirname(fpath)
        for m in HREF_RE.finditer(html):
            url = m.group(1) if m.group(1) is not None else m.group(2)
            if not url or re.match(r"^(?:[a-z][a-z0-9+.-]*:|//|#)", url, re.I):
                continue
            nlinks += 1
            target, _, frag = url.partition("#")
            target = urllib.parse.unquote(target.split("?")[0])
            # (an alias inside a raw HTML block is replaced by the absolute output path and left like that;
            # C17 asks for links that are correct, relocatability is C09's business: an absolute path is
            # followed as a file-system path)
            if target.startswith("/"):
                out["probes"]["absolute_local_links"] = out["probes"].get("absolute_local_links", 0) + 1
            tp = os.path.normpath(os.path.join(here, target)) if target else fpath
            if not os.path.exists(tp):
                findings.append(("full/link-dangling", "page/%s: link %s does not resolve to an existing file" % (rel, url), {"full": True}))
            elif not (tp == doc or tp.startswith(doc + "/")):
                findings.append(("full/link-escapes", "page/%s: link %s points outside the documentation" % (rel, url), {"full": True}))
        # alias / relative links carry their intended target in the link text
        for m in A_RE.finditer(html):
            url = m.group(1) if m.group(1) is not None else m.group(2)
            text = re.sub(r"<[^>]+>", "", m.group(3)).strip()
            mm = re.match(r"^(to|rel) (.+\.html)$", text)
            if mm:
                want = os.path.join(pagedir, mm.group(2))
                got = os.path.normpath(os.path.join(here, urllib.parse.unquote(url.split("#")[0])))
                out["probes"]["alias_links_checked"] = out["probes"].get("alias_links_checked", 0) + 1
                if got != want:
                    findings.append(("full/alias-wrong-target/%s" % mm.group(1), "page/%s: %s link meant for page/%s resolves to %s" % (rel, "|page|" if mm.group(1) == "to" else "relative", mm.group(2), os.path.relpath(got, doc)), {"full": True}))
            elif text == "home":
                got = os.path.normpath(os.path.join(here, url.split("#")[0]))
                out["probes"]["alias_links_checked"] = out["probes"].get("alias_links_checked", 0) + 1
                if got != doc + "/index.html":
                    findings.append(("full/alias-wrong-target/url", "page/%s: |url| link resolves to %s" % (rel, got), {"full": True}))
        for m in IMG_RE.finditer(html):
            url = m.group(1) if m.group(1) is not None else m.group(2)
            if url.endswith("pic.png"):
                got = os.path.normpath(os.path.join(here, url))
                out["probes"]["alias_links_checked"] = out["probes"].get("alias_links_checked", 0) + 1
                if got != doc + "/media/pic.png":
                    findings.append(("full/alias-wrong-target/media", "page/%s: |media| image resolves to %s" % (rel, got), {"full": True}))
        out["probes"]["depth_%d_pages" % rel.count("/")] = out["probes"].get("depth_%d_pages" % rel.count("/"), 0) + 1
    out["probes"]["links_checked"] = out["probes"].get("links_checked", 0) + nlinks
    return findings


def world_task(seed, idx, tier, batch):
    workdir = os.path.join(batch, "w%d" % idx)
    case = gen_case(seed, idx)
    full = (idx % 4 == 0) if tier == "quick" else (idx % 2 == 0)
    r = evaluate(case, seed, workdir, n_orders=4 if tier == "quick" else 8, n_torn=6 if tier == "quick" else 14, full=full)
    r["idx"] = idx
    r["sample"] = {"page_files": sorted(k for k in layout(case) if k.startswith("p/pages"))[:40], "missing_ordered": case["missing_ordered"]}
    seen = set()
    f2 = []
    for f in r["findings"]:
        if f[0] not in seen:
            seen.add(f[0])
            f2.append(f)
    r["findings"] = f2
    O.wipe(workdir)
    return r


def clean_links(case):
    """after shrinking: drop links whose target page no longer exists"""
    model = PM.build_model(case["tree"])
    ok = set(PM.flatten(model)) if model else set()
    for rel, p, isidx in PM.all_pages(case["tree"]):
        if p.get("links"):
            p["links"] = [l for l in p["links"] if l[0] in ("media", "url") or l[1] in ok]
    return case


def tree_candidates(case):
    for desc, c in _tree_candidates(case):
        yield desc, clean_links(c)


def _tree_candidates(case):
    tree = case["tree"]

    def paths(d, pre=()):
        yield pre, d
        for n in sorted(d["dirs"]):
            for x in paths(d["dirs"][n], pre + (n,)):
                yield x

    def get(t, pre):
        for n in pre:
            t = t["dirs"][n]
        return t
    for pre, d in list(paths(tree)):
        if pre:
            c = copy.deepcopy(case)
            del get(c["tree"], pre[:-1])["dirs"][pre[-1]]
            yield "drop dir", c
        for stem in sorted(d["pages"]):
            c = copy.deepcopy(case)
            del get(c["tree"], pre)["pages"][stem]
            yield "drop page", c
        for key in ("files", "hidden", "assets"):
            if d[key]:
                c = copy.deepcopy(case)
                get(c["tree"], pre)[key] = []
                yield "drop " + key, c
        if d["index"] is not None and d["index"].get("ordered_subpage"):
            c = copy.deepcopy(case)
            get(c["tree"], pre)["index"]["ordered_subpage"] = None
            yield "drop ordered_subpage", c
        for rel, p, isidx in [(None, d["index"], True)] + [(s, d["pages"][s], False) for s in sorted(d["pages"])]:
            if p is not None and p.get("links"):
                c = copy.deepcopy(case)
                t = get(c["tree"], pre)
                (t["index"] if isidx else t["pages"][rel])["links"] = []
                yield "drop links", c


def minimise(case, seed, sig, pl, workdir, budget=45):
    from fordsim import shrink as SH
    full = bool(pl.get("full"))

    def clean(c, plan):
        if plan.get("tears"):
            present = {rel for rel, p, isidx in PM.all_pages(c["tree"])}
            t = {k: v for k, v in plan["tears"].items() if k in present}
            return dict(plan, tears=t or None)
        return plan

    def test(cand, slot):
        if full:
            r = evaluate(cand, seed, os.path.join(workdir, "s%d" % slot), variants_spec=[], full=True)
        else:
            r = evaluate(cand, seed, os.path.join(workdir, "s%d" % slot), variants_spec=[clean(cand, pl)])
        return (not r["harness"]) and any(f[0] == sig for f in r["findings"])
    cur, steps = SH.shrink(case, tree_candidates, test, budget=budget)
    return cur, (pl if full else clean(cur, pl))


def rerun(case, seed, pl, workdir):
    if pl.get("full"):
        return evaluate(case, seed, workdir, variants_spec=[], full=True)
    return evaluate(case, seed, workdir, variants_spec=[pl])


def main():
    args = check.parse_args(PROP)
    rep = check.Report(args, "exploration",
                       "one evaluation = one real get_page_tree() (forked variant of a cold process) on a generated page directory under one seeded "
                       "permutation of every directory enumeration, with 0-3 page files torn (title-loss), compared with a reference model; plus sampled "
                       "cold full runs whose static pages, copied files and links are checked. distinct_nontrivial counts distinct (world, enumeration seed, tear set) variants")
    batch = O.new_batch_dir("c17")
    try:
        if args.replay:
            with open(args.replay) as f:
                case = json.load(f)
            r = rerun(case["case"], case["seed_used"], case["plan"], os.path.join(batch, "replay"))
            for h in r["harness"]:
                print("HARNESS-ERROR property=%s %s" % (PROP, h))
            hit = [f for f in r["findings"] if f[0] == case["signature"]]
            if hit:
                print("VIOLATION property=%s replay=%s signature=%s :: %s" % (PROP, args.replay, hit[0][0], hit[0][1]))
                return 1
            print("replay: no violation (signature %s not reproduced; got %s)" % (case["signature"], [f[0] for f in r["findings"]]))
            return 2 if r["harness"] else 0
        cdir = os.path.join(check.VERIF, "corpus", PROP)
        n_corpus = 0
        if os.path.isdir(cdir):
            for fn in sorted(os.listdir(cdir)):
                if fn.endswith(".json"):
                    with open(os.path.join(cdir, fn)) as f:
                        case = json.load(f)
                    r = rerun(case["case"], case["seed_used"], case["plan"], os.path.join(batch, "corpus"))
                    n_corpus += 1
                    rep.cov["evaluations"] += r["n"]
                    for h in r["harness"]:
                        rep.harness_error("corpus %s: %s" % (fn, h))
                    for sig, what, pl in r["findings"]:
                        rep.violation(sig, what + " [regression corpus %s]" % fn, {"case": case["case"], "plan": case["plan"], "seed_used": case["seed_used"]})
        rep.cov["fixed_regressions_passed"] = n_corpus
        n_worlds = args.worlds or (240 if args.tier == "quick" else 5000)
        budget = args.budget or (70 if args.tier == "quick" else 1500)
        tasks = [(args.seed, i, args.tier, batch) for i in range(n_worlds)]
        worlds = 0
        to_min = []
        for i, r in O.map_worlds(world_task, tasks, jobs=args.jobs, budget_s=budget):
            if isinstance(r, Exception):
                rep.harness_error("world %d: %r" % (i, r))
                continue
            worlds += 1
            rep.cov["evaluations"] += r["n"]
            rep.cov["cold_runs"] += r["cold"]
            rep.cov["forked_variants"] += r["n"]
            for h in r["harness"]:
                rep.harness_error("world %d: %s" % (i, h))
            for k, v in r["probes"].items():
                rep.probe(k, v)
            for k, v in r["kinds"].items():
                rep.fault("torn_" + k, configured=v, fired=v)
            for nt in r["nontrivial"]:
                rep.nontrivial(tuple(nt))
            rep.sample(r["sample"])
            for sig, what, pl in r["findings"]:
                if any(e["signature"] == sig for e in rep.known):
                    rep.violation(sig, what, {})
                elif not any(t[1] == sig for t in to_min):
                    to_min.append((i, sig, what, pl))
        rep.count("violations_beyond_cap", max(0, len(to_min) - 12))
        for k, (i, sig, what, pl) in enumerate(to_min[:12]):
            case = gen_case(args.seed, i)
            wd = os.path.join(batch, "min%d" % k)
            mcase, mpl = minimise(case, args.seed, sig, pl, wd) if k < 5 else (case, pl)
            ok = True
            what2 = what
            for c in range(2):
                r = rerun(mcase, args.seed, mpl, os.path.join(wd, "c%d" % c))
                hit = [f for f in r["findings"] if f[0] == sig]
                if not hit:
                    ok = False
                    break
                what2 = hit[0][1]
            if not ok:
                mcase, mpl = case, pl
                r = rerun(mcase, args.seed, mpl, os.path.join(wd, "c9"))
                hit = [f for f in r["findings"] if f[0] == sig]
                if not hit:
                    rep.harness_error("finding %s in world %d did not reproduce from cold" % (sig, i))
                    continue
                what2 = hit[0][1]
            rep.violation(sig, what2, {"case": mcase, "plan": mpl, "seed_used": args.seed, "files": layout(mcase), "found_in_world": i})
            O.wipe(wd)
        rep.cov["worlds"] = worlds
        rep.cov["seeds_per_hour"] = int(worlds / max(1e-9, time.monotonic() - rep.t0) * 3600)
        rep.assumptions += ["names are lower-case three-letter ASCII words, so every reasonable meaning of 'alphabetical' agrees",
                            "only title-loss faults are injected (the failure the statement speaks about); unreadable/vanished page files are not",
                            "copy_subdir directories never contain an index.md; an ordered_subpage entry naming a missing file may abort (naming it) or be ignored",
                            "narrow claim: the property is mostly a function of the directory tree; simulation contributes enumeration order and torn files"]
        return rep.finish()
    finally:
        O.wipe(batch)


if __name__ == "__main__":
    sys.exit(main())
