#!/venv/bin/python
"""C12 -- output is a deterministic function of the inputs.

Every variant is one cold, fully simulated FORD run (real ford.initialize() +
ford.main()) of the same world at the same absolute path; the seeded scheduler
changes one dimension at a time (PYTHONHASHSEED, source-set order, directory
enumeration order, worker count + SimPool interleaving, what an earlier run
left in the output directory, clock) and a few all at once.  Oracle: the output
tree is byte-for-byte the reference run's.
"""
import copy
import itertools
import json
import os
import re
import sys
import time

sys.path.insert(0, os.path.dirname(os.path.dirname(os.path.abspath(__file__))))
from fordsim import check, seeds, world as W  # noqa: E402
from fordsim import orchestrate as O  # noqa: E402

PROP = "C12"
REF_CLOCK = {"seed": 0, "start": 1_790_000_000.0}
REF = {"hashseed": 0, "order": {"mode": "sorted"}, "dir": "sorted", "parallel": 0, "pool_seed": 0,
       "history": "absent", "clock": REF_CLOCK}
SORTS = ["src", "alpha", "permission", "permission-alpha", "type", "type-alpha"]

STALE = {
    "index.html": "<html>stale index of another project</html>",
    "module/zz_stale.html": "<html>stale module page</html>",
    "proc/zz_stale.html": "stale",
    "search/search_database.json": "var tipuesearch = {\"pages\":[{\"title\":\"stale\"}]}",
    "src/zz_stale.f90": "module zz_stale\nend module zz_stale\n",
    "lists/files.html": "stale list",
    "tipuesearch/stale.js": "stale",
    "page/old/index.html": "old static page",
    "modules.json": "{\"stale\": true}",
    "graphs_old/x.gv": "digraph x {}",
}


# --------------------------------------------------------------------- worlds
def gen_case(seed, idx):
    rng = seeds.stream(seed, PROP, idx, "world")
    w = W.gen_modgraph(rng, {"max_mods": 5, "min_mods": 2, "max_ents": 4, "dup_names": True,
                             "unknown_uses": True, "extras": True, "families": True, "dup_modules": True})
    lay = rng.choice(["normal"] * 10 + ["srcdot_file", "srcdot_cli"])
    opts = {"project": "World %d" % idx, "preprocess": False, "parallel": 0, "print_creation_date": False,
            "search": rng.random() < 0.6, "graph": rng.random() < 0.6, "incl_src": rng.random() < 0.7,
            "sort": rng.choice(SORTS), "proc_internals": rng.random() < 0.4, "hide_undoc": rng.random() < 0.2,
            "externalize": rng.random() < 0.3, "warn": rng.random() < 0.2}
    opts["display"] = rng.choice([["public", "protected"], ["public", "private", "protected"], ["public"], ["private"]])
    if rng.random() < 0.25:
        opts["project_url"] = "https://example.org/docs"
        # FORD (unchanged tree) dies with "Cannot mix str and non-str arguments" in
        # tipue_search.create_node when project_url is set and search is on (urljoin(str, Path));
        # that is outside every claimed property, so the combination is not generated
        opts["search"] = False
    if opts["graph"]:
        gd = rng.choice([None, "in", "out"])
        if gd == "in":
            opts["graph_dir"] = "./doc/graphs" if lay == "normal" else "./out/graphs"
        elif gd == "out" and lay == "normal":
            opts["graph_dir"] = "./graphs_out"
        opts["coloured_edges"] = rng.random() < 0.3
        opts["show_proc_parent"] = rng.random() < 0.3
    if rng.random() < 0.3:
        opts["max_frontpage_items"] = rng.randint(1, 4)
    if opts["graph"] and rng.random() < 0.3:
        opts["graph_maxdepth"] = rng.choice([1, 2])
    if opts["graph"] and rng.random() < 0.3:
        opts["graph_maxnodes"] = rng.choice([2, 4, 8])
    if rng.random() < 0.3:
        opts["extra_mods"] = ["netcdf: https://example.org/netcdf", "hdf5: https://example.org/hdf5"]
    if rng.random() < 0.2:
        opts["lower"] = True
    if rng.random() < 0.3:
        opts["alias"] = ["proj = The Project", "ver = 1.2.3"]
    if idx % 12 == 7 and os.path.isfile("/repo/example/fpm.toml"):
        # FORD's own example project (admonitions, LaTeX, fixed form, types, interfaces, extra file types, pages)
        return {"corpus": "example", "idx": idx, "world": w, "layout": "normal",
                "options": {"graph": rng.random() < 0.7, "search": rng.random() < 0.7, "graph_dir": rng.random() < 0.5,
                            "externalize": rng.random() < 0.5, "sort": rng.choice(SORTS), "parallel": 0}}
    case = {"world": w, "options": opts, "layout": lay, "exclude": rng.random() < 0.3, "two_includes": rng.random() < 0.3, "fixed_form": rng.random() < 0.25, "odd_shapes": rng.random() < 0.3,
            "many_files": rng.random() < 0.15, "pages": rng.random() < 0.35 and lay == "normal",
            "media": rng.random() < 0.25 and lay == "normal", "extra_ft": rng.random() < 0.2, "idx": idx}
    return case


def read_tree(top):
    """{relpath: str | {"b64":..}} of a directory of the repository (FORD's own example projects)"""
    import base64
    out = {}
    for dp, dns, fns in os.walk(top):
        dns.sort()
        for fn in sorted(fns):
            p = os.path.join(dp, fn)
            rel = os.path.relpath(p, top)
            data = open(p, "rb").read()
            try:
                out[rel] = data.decode("utf-8")
                if "\r" in out[rel]:
                    raise UnicodeDecodeError("utf-8", b"", 0, 1, "keep bytes")
            except UnicodeDecodeError:
                out[rel] = {"b64": base64.b64encode(data).decode()}
    return out


def build_corpus_files(case):
    """FORD's own example project as a world (settings come from its fpm.toml)."""
    files = {"home/.keep": ""}
    tree = read_tree("/repo/example")
    for k, v in tree.items():
        files["p/" + k] = v
    toml = tree["fpm.toml"].replace('preprocess = "true"', 'preprocess = "false"')
    extra = ["parallel = 0"]
    o = case["options"]
    if not o.get("graph"):
        toml = toml.replace("graph = true", "graph = false")
    if not o.get("search"):
        toml = toml.replace("search = true", "search = false")
    if o.get("graph_dir"):
        extra.append('graph_dir = "./doc/graphs"')
    if o.get("externalize"):
        extra.append("externalize = true")
    extra.append('sort = "%s"' % o.get("sort", "src"))
    toml = toml.replace('page_dir = "pages"', 'page_dir = "pages"\n' + "\n".join(extra))
    files["p/fpm.toml"] = toml
    return files, ["ford", "example-project-file.md"], "p/doc", ("p/doc/graphs" if o.get("graph_dir") else None)


def build_files(case, seed):
    """-> (files, argv, outdir_rel, graphdir_rel|None)"""
    if case.get("corpus") == "example":
        return build_corpus_files(case)
    idx = case["idx"]
    src = W.render_sources(case["world"], seeds.stream(seed, PROP, idx, "render"))
    opts = dict(case["options"])
    lay = case["layout"]
    files = {"home/.keep": ""}
    argv = ["ford", "proj.md"]
    if lay == "normal":
        for k, v in src.items():
            files["p/" + k] = v
        opts["src_dir"] = "./src"
        opts["output_dir"] = "./doc"
        out = "p/doc"
    else:
        # sources directly in the project directory; the output directory lies inside the source dir
        for k, v in src.items():
            files["p/" + k[len("src/"):]] = v
        opts["src_dir"] = "."
        if lay == "srcdot_file":
            opts["output_dir"] = "./out"
        else:
            argv += ["-o", "out"]
        out = "p/out"
    if case.get("odd_shapes"):
        # unusual but legal shapes: a file name with a blank and dots, a directory with a blank, CRLF line
        # ends, tabs, no final newline, non-ASCII text in documentation comments
        keys = sorted(k for k in files if k.endswith(".f90"))
        if keys:
            k0 = keys[0]
            files[os.path.dirname(k0) + "/my file.v2.f90"] = files.pop(k0)
        if len(keys) > 1:
            k1 = keys[1]
            files[os.path.dirname(k1) + "/sub dir/" + os.path.basename(k1)] = files.pop(k1).replace("\n", "\r\n")
        if len(keys) > 2:
            k2 = keys[2]
            files[k2] = files[k2].replace("  !! ", "\t!! caf\u00e9 \u2192 na\u00efve ").rstrip("\n")
    if case.get("odd_shapes"):
        base = "p/src/" if lay == "normal" else "p/"
        for nm in ("part01", "part1", "part001"):
            files[base + nm + ".f90"] = ("module %s_mod\n  !! module in %s\n  implicit none\ncontains\n  subroutine setup()\n    !! setup of %s\n"
                                         "  end subroutine setup\nend module %s_mod\n" % (nm, nm, nm, nm))
        long = "implicit_runge_kutta_time_integration_kernels_for_stiff_systems_of_equations_v2"
        files[base + long + ".f90"] = "module longname_mod\n  !! a module in a file with a very long name\nend module longname_mod\n"
    if case.get("many_files"):
        base = "p/src/" if lay == "normal" else "p/"
        for q in range(14):
            files[base + "many/mm%02d.f90" % q] = ("module mm%02d\n  !! one of many small modules\n%s  implicit none\n  integer :: mmv%02d\nend module mm%02d\n"
                                                  % (q, "  use mm%02d\n" % (q - 1) if q % 3 else "", q, q))
    if case.get("exclude"):
        base = "p/src/" if lay == "normal" else "p/"
        files[base + "skipme.f90"] = "module skipme\n  !! excluded by the project file\nend module skipme\n"
        opts["exclude"] = ("src/" if lay == "normal" else "") + "skipme.f90"
    if case.get("two_includes"):
        # two include directories both provide params.inc: the documented search order decides
        opts["include"] = ["./inc_a", "./inc_b"]
        files["p/inc_a/params.inc"] = "integer, parameter :: inc_from_a = 1 !! from a\n"
        files["p/inc_b/params.inc"] = "integer, parameter :: inc_from_b = 2 !! from b\n"
        base = "p/src/" if lay == "normal" else "p/"
        files[base + "uses_inc.f90"] = "module uses_inc\n  !! includes a file found in two include dirs\n  implicit none\n  include \"params.inc\"\nend module uses_inc\n"
    if case.get("extra_ft"):
        opts["extra_filetypes"] = "inc !"
        base = "p/src/" if lay == "normal" else "p/"
        files[base + "defs.inc"] = "! plain include\n!! documented extra file tracerincq\ninteger :: incvar\n"
    if case.get("pages"):
        opts["page_dir"] = "./pages"
        files["p/pages/index.md"] = "title: Top\n\nTop page text toptracerq. [a](./a.html)\n"
        files["p/pages/a.md"] = "title: Page A\n\nA text atracerq\n"
        files["p/pages/b.md"] = "title: Page B\nauthor: someone\n\nB text btracerq\n"
        files["p/pages/sub/index.md"] = "title: Sub\n\nSub text subtracerq\n"
        files["p/pages/sub/z.md"] = "title: Z\n\nZ text\n"
        files["p/pages/sub/y.md"] = "title: Y\n\nY text\n"
        files["p/pages/sub/data.txt"] = "data file\n"
    if case.get("media"):
        opts["media_dir"] = "./media"
        for n in ("a.png", "b.png", "c/d.txt"):
            files["p/media/" + n] = "media " + n
    gd = opts.get("graph_dir")
    graphdir = os.path.normpath(os.path.join("p", gd)) if gd else None
    if case.get("fixed_form"):
        base = "p/src/" if lay == "normal" else "p/"
        files[base + "legacy.f"] = ("C     a fixed-form source file\n      subroutine legacy(n)\nC!    documented fixed-form routine legacytracerq\n"
                                    "      integer n\n      n = n +\n     &    1\n      end subroutine legacy\n")
    body = "Project body [[%s]] text.\n" % case["world"]["mods"][0]["name"]
    if opts.get("alias"):
        body += "\nAliases: |proj| version |ver|.\n"
    files["p/proj.md"] = W.render_project_file(opts, body)
    return files, argv, out, graphdir


def make_variants(case, files, seed, tier):
    idx = case["idx"]
    rng = seeds.stream(seed, PROP, idx, "variant")
    srcs = sorted(f for f in files if f.endswith(".f90") or f.endswith(".inc"))
    V = []

    def var(name, **dims):
        d = dict(REF)
        d.update(dims)
        V.append({"name": name, "dims": d})

    var("hashseed-1", hashseed=1)
    var("hashseed-r", hashseed=rng.randrange(2, 1 << 32))
    if tier == "thorough":
        var("hashseed-max", hashseed=4294967295)
    var("natural-set-order", hashseed=rng.randrange(2, 1 << 32), order=None)
    perms = []
    if len(srcs) <= (3 if tier == "quick" else 4):
        perms = [list(p) for p in itertools.permutations(srcs)][1:]
    else:
        perms = [srcs[::-1]]
        seen = {tuple(srcs), tuple(srcs[::-1])}
        want = 3 if tier == "quick" else 12
        tries = 0
        while len(perms) < want and tries < 100:
            tries += 1
            p = srcs[:]
            rng.shuffle(p)
            if tuple(p) not in seen:
                seen.add(tuple(p))
                perms.append(p)
    for i, p in enumerate(perms[: (5 if tier == "quick" else 23)]):
        var("file-order-%d" % i, order={"mode": "explicit", "names": p})
    for i in range(1 if tier == "quick" else 3):
        var("dir-order-%d" % i, dir={"seed": rng.randrange(1 << 30)})
    if case["options"].get("graph"):
        for n in (2, 8):
            for i in range(1 if tier == "quick" else 3):
                var("parallel-%d-%d" % (n, i), parallel=n, pool_seed=rng.randrange(1 << 30))
        if tier == "thorough" or case["idx"] % 4 == 0:
            # the real worker pool (forked processes, real scheduling): ties SimPool to the mechanism it models
            var("parallel-real-2", parallel=2, pool_real=True)
            if tier == "thorough":
                var("parallel-real-8", parallel=8, pool_real=True)
    else:
        var("parallel-2", parallel=2, pool_seed=1)
    for h in ("empty", "stale", "same", "file"):
        var("history-" + h, history=h)
    var("clock-start", clock={"seed": 7, "start": REF_CLOCK["start"] + 40 * 86400.0})
    var("clock-back", clock={"seed": 3, "start": REF_CLOCK["start"], "back_at": 3})
    var("clock-tz", clock={"seed": 5, "start": REF_CLOCK["start"] + 11 * 3600.0, "tz": rng.choice(["XYZ-14", "ABC+11:30", "Asia/Tokyo"])})
    for i in range(1 if tier == "quick" else 3):
        p = srcs[:]
        rng.shuffle(p)
        var("all-%d" % i, hashseed=rng.randrange(1, 1 << 32), order={"mode": "explicit", "names": p},
            dir={"seed": rng.randrange(1 << 30)}, parallel=rng.choice([2, 8]), pool_seed=rng.randrange(1 << 30),
            history=rng.choice(["stale", "same", "empty"]),
            clock={"seed": rng.randrange(1000), "start": REF_CLOCK["start"] + rng.randrange(100) * 86400.0,
                   "back_at": rng.choice([None, 2, 4])})
    return V


# ----------------------------------------------------------------------- runs
def spec_for(sb, argv, dims, heap_pad=0):
    argv = list(argv)
    if dims["parallel"]:
        argv += ["--config", "parallel = %d" % dims["parallel"]]
    env = {"TZ": dims["clock"]["tz"]} if dims["clock"].get("tz") else {}
    spec = {"sandbox": sb, "cwd": sb + "/p", "argv": argv, "mode": "full", "order_plan": dims["order"], "env": env,
            "dir_order": dims["dir"], "clock": dims["clock"], "heap_pad": heap_pad,
            "pool": {"sim": True, "seed": dims["pool_seed"]} if dims.get("pool_real") is not True else None}
    return spec


def prepare(sb, files, out_rel, history, argv, workdir, graph_rel=None, ref_graph_names=()):
    """Restore the sandbox from the pristine world and lay down the output-dir history."""
    O.wipe(sb)
    O.materialise(files, sb)
    out = os.path.join(sb, out_rel)
    if history in ("stale", "same") and graph_rel and not (graph_rel + "/").startswith(out_rel + "/"):
        # a graph directory outside the output directory is never wiped by FORD: an earlier run of another
        # project left files there, some with the very names this run writes (only those are compared)
        gdir = os.path.join(sb, graph_rel)
        os.makedirs(gdir, exist_ok=True)
        with open(os.path.join(gdir, "module~~zz_other~~UsesGraph.gv"), "w") as f:
            f.write("digraph stale_other {}\n")
        for nm in ref_graph_names:
            os.makedirs(os.path.dirname(os.path.join(gdir, nm)), exist_ok=True)
            with open(os.path.join(gdir, nm), "w") as f:
                f.write("stale content left by an earlier run of another project\n")
    if history == "absent":
        return None
    if history == "empty":
        os.makedirs(out)
    elif history == "stale":
        O.materialise(STALE, out)
    elif history == "file":
        os.makedirs(os.path.dirname(out), exist_ok=True)
        with open(out, "w") as f:
            f.write("a regular file where the output directory should be\n")
    elif history == "same":
        r = O.run_cold(spec_for(sb, argv, REF), workdir, hashseed=0, tag="prev")
        return r
    return None


def observe(sb, out_rel, graph_rel):
    out = os.path.join(sb, out_rel)
    d = O.tree_digest(out)
    if graph_rel and not (graph_rel + "/").startswith(out_rel + "/"):
        for k, v in O.tree_digest(os.path.join(sb, graph_rel)).items():
            d["<graph_dir>/" + k] = v
    return d


def outcome_key(r):
    if r["status"] != "ok":
        return "status:" + r["status"]
    o = r["result"]["outcome"]
    if o["kind"] == "ok":
        return "ok"
    if o["kind"] == "exit":
        return "exit:%s" % (o.get("code"),)
    return "exception:" + o.get("cls", "?")


IDENT_RE = re.compile(r"\b(?:[a-z]*e\d+[a-z]\d+x?|[a-z]*m\d+|[a-z]*p\d+(?:v\d+)?|[a-z]*x\d+|[a-z]*loc\d+|[a-z]*tracer\d+q|sm2?_\w+|bd\d+|host\d*|nlp|World \d+)\b", re.I)


def path_class(p):
    if p.startswith("<graph_dir>/") or "/graphs/" in "/" + p or p.endswith(".gv") or p.endswith(".svg"):
        return "graph-file"
    top = p.split("/")[0]
    if top in ("module", "proc", "type", "program", "interface", "sourcefile", "blockdata", "namelist"):
        return top + "-page"
    if top == "lists":
        return "list-page:" + p.split("/")[-1]
    if top == "search":
        return "search-db"
    if top == "src":
        return "src-copy"
    if top == "page":
        return "static-page"
    return p if "/" not in p else top


def locus(ref_dir, var_dir, dref, dvar):
    """Classify where two output trees differ."""
    only_r = sorted(set(dref) - set(dvar))
    only_v = sorted(set(dvar) - set(dref))
    if only_r or only_v:
        cls = sorted({path_class(p) for p in only_r + only_v})
        return "file-set[%s]" % ",".join(cls[:3]), {"only_in_reference": only_r[:10], "only_in_variant": only_v[:10]}
    diff = sorted(p for p in dref if dref[p] != dvar[p])
    first = diff[0]
    head = ""
    detail = {"differing_files": diff[:10]}
    try:
        with open(os.path.join(ref_dir, first), errors="replace") as f:
            a = f.read().splitlines()
        with open(os.path.join(var_dir, first), errors="replace") as f:
            b = f.read().splitlines()
        i = 0
        while i < min(len(a), len(b)) and a[i] == b[i]:
            i += 1
        detail["first_diff"] = {"file": first, "line": i + 1, "reference": (a[i] if i < len(a) else "<eof>")[:300],
                                "variant": (b[i] if i < len(b) else "<eof>")[:300]}
        for j in range(min(i, len(a) - 1), -1, -1):
            m = re.search(r"<h(\d)[^>]*>(.*?)</h\1>", a[j])
            if m:
                head = re.sub(r"<[^>]+>", "", m.group(2)).strip()
                head = IDENT_RE.sub("<id>", head)[:40]
                break
    except OSError:
        pass
    return "%s>%s" % (path_class(first), head), detail


def run_variant(sb, files, argv, out_rel, graph_rel, dims, workdir, tag, keep_copy=None, heap_pad=0, shim=True, ref_digest=None):
    gnames = [k[len("<graph_dir>/"):] for k in (ref_digest or {}) if k.startswith("<graph_dir>/") and (ref_digest or {})[k] != "D"]
    prepare(sb, files, out_rel, dims["history"], argv, workdir, graph_rel, gnames)
    spec = spec_for(sb, argv, dims, heap_pad)
    r = O.run_cold(spec, workdir, hashseed=dims["hashseed"], tag=tag, shim=shim)
    d = observe(sb, out_rel, graph_rel)
    if ref_digest is not None and dims["history"] in ("stale", "same"):
        # in an external graph directory only the files this project writes are FORD's output
        d = {k: v for k, v in d.items() if not k.startswith("<graph_dir>/") or k in ref_digest}
    if keep_copy:
        O.wipe(keep_copy)
        src = os.path.join(sb, out_rel)
        if os.path.isdir(src):
            import shutil
            shutil.copytree(src, keep_copy, symlinks=True)
    return r, d


def differing_dims(dims):
    out = []
    for k in ("hashseed", "order", "dir", "parallel", "history", "clock"):
        if dims[k] != REF[k]:
            out.append(k)
    return out


def evaluate(case, seed, variants, workdir, want_ref_copy=True):
    """-> dict(findings=[(sig, what, variant, detail)], n, harness, stats)"""
    files, argv, out_rel, graph_rel = build_files(case, seed)
    sb = os.path.join(workdir, "root")
    wk = os.path.join(workdir, "work")
    refcopy = os.path.join(workdir, "refcopy")
    out = {"findings": [], "harness": [], "n": 0, "stats": {}, "fired": {}, "simtime": 0.0, "interleavings": set(),
           "ref_outcome": None, "nfiles": 0}
    r0, d0 = run_variant(sb, files, argv, out_rel, graph_rel, REF, wk, "ref", keep_copy=refcopy)
    out["n"] += 1
    if r0["status"] not in ("ok",):
        out["harness"].append("reference run: %s\n%s" % (r0["status"], r0["stdout"][-1500:]))
        return out
    k0 = outcome_key(r0)
    out["ref_outcome"] = k0
    out["nfiles"] = len(d0)
    if r0["result"].get("clock"):
        out["simtime"] += r0["result"]["clock"]["advanced"]
    for v in variants:
        dims = v["dims"]
        r, d = run_variant(sb, files, argv, out_rel, graph_rel, dims, wk, "var", ref_digest=d0)
        out["n"] += 1
        if dims["history"] == "same":
            out["n"] += 1
        if r["status"] not in ("ok",):
            out["harness"].append("variant %s: %s\n%s" % (v["name"], r["status"], r["stdout"][-1500:]))
            continue
        res = r["result"]
        if res.get("clock"):
            out["simtime"] += res["clock"]["advanced"]
        st = out["stats"]
        pr = res.get("probes", {})
        if pr.get("find_all_files_permuted") and res.get("file_order") != sorted(res.get("file_order") or []):
            st["order_permuted"] = st.get("order_permuted", 0) + 1
        if pr.get("find_all_files_ordered_by_code"):
            st["order_fixed_by_code"] = st.get("order_fixed_by_code", 0) + 1
        if dims.get("pool_real"):
            st["real_pool_runs"] = st.get("real_pool_runs", 0) + 1
        if res.get("pool") and res["pool"]["tasks"]:
            st["pool_runs"] = st.get("pool_runs", 0) + 1
            st["pool_switches"] = st.get("pool_switches", 0) + res["pool"]["switches"]
            out["interleavings"].add(res["pool"]["trace"])
        if res.get("clock") and res["clock"]["back"]:
            st["clock_back"] = st.get("clock_back", 0) + 1
        k = outcome_key(r)
        if dims["order"] is None and res.get("file_order"):
            # natural set order depends on the hash of absolute paths: report the finding with the
            # order made explicit, so that minimisation and replay do not depend on the sandbox path
            v = {"name": v["name"], "dims": dict(dims, order={"mode": "explicit", "names": res["file_order"]})}
            dims = v["dims"]
        dd = differing_dims(dims)
        if k != k0:
            o = res["outcome"]
            out["findings"].append(("%s|outcome" % "+".join(dd),
                                    "run outcome differs from the reference run (%s vs %s) when only [%s] changed: %s"
                                    % (k, k0, ", ".join(dd), (o.get("msg") or "")[:300]), v, {"outcome": o}))
            continue
        if k0 != "ok":
            # both runs failed the same way before producing output: nothing to compare
            # (whatever history left in the output directory is not FORD's output)
            st["both_failed_same"] = st.get("both_failed_same", 0) + 1
            continue
        if d != d0:
            loc, detail = locus(refcopy, os.path.join(sb, out_rel), d0, d)
            out["findings"].append(("%s|%s" % ("+".join(dd), loc),
                                    "output differs from the reference run when only [%s] changed; locus %s; %s"
                                    % (", ".join(dd), loc, json.dumps(detail)[:500]), v, detail))
    out["interleavings"] = sorted(out["interleavings"])
    return out


def world_task(seed, idx, tier, batch):
    workdir = os.path.join(batch, "w%d" % idx)
    case = gen_case(seed, idx)
    files, argv, out_rel, graph_rel = build_files(case, seed)
    variants = make_variants(case, files, seed, tier)
    r = evaluate(case, seed, variants, workdir)
    r["idx"] = idx
    r["variants"] = [(v["name"], differing_dims(v["dims"])) for v in variants]
    r["layout"] = case["layout"]
    r["sample"] = {"layout": case["layout"], "options": case["options"], "files": sorted(files),
                   "variants": [v["name"] for v in variants]}
    seen = set()
    f2 = []
    for f in r["findings"]:
        if f[0] not in seen:
            seen.add(f[0])
            f2.append(f)
    r["findings"] = f2
    O.wipe(workdir)
    return r


# ------------------------------------------------------------- minimisation
def reduce_plan(case, seed, variant, sig_locus, workdir):
    """Reset each simulated dimension to its reference value while the same locus persists."""
    dims = dict(variant["dims"])
    for k in ("clock", "dir", "parallel", "history", "order", "hashseed"):
        if dims[k] == REF[k]:
            continue
        trial = dict(dims)
        trial[k] = REF[k]
        if k == "parallel":
            trial["pool_seed"] = 0
        if trial == REF or not differing_dims(trial):
            continue
        r = evaluate(case, seed, [{"name": "plan", "dims": trial}], workdir)
        if any(f[0].split("|", 1)[1] == sig_locus for f in r["findings"]):
            dims = trial
    return {"name": variant["name"] + "-min", "dims": dims}


def case_candidates(case):
    if case.get("corpus"):
        for k, v in sorted(case["options"].items()):
            if v and k != "sort":
                c = copy.deepcopy(case)
                c["options"][k] = False
                yield "corpus option " + k, c
        return
    for desc, w in W.shrink_candidates(case["world"]):
        c = copy.deepcopy(case)
        c["world"] = w
        if w["mods"]:
            yield desc, c
    for k in ("pages", "media", "extra_ft", "exclude", "two_includes", "fixed_form", "odd_shapes", "many_files"):
        if case.get(k):
            c = copy.deepcopy(case)
            c[k] = False
            yield "no " + k, c
    for k, v in sorted(case["options"].items()):
        if k in ("project", "preprocess", "parallel", "print_creation_date"):
            continue
        c = copy.deepcopy(case)
        if isinstance(v, bool) and v:
            c["options"][k] = False
        elif k in ("graph_dir", "project_url", "max_frontpage_items", "display", "sort", "coloured_edges", "show_proc_parent",
                   "graph_maxdepth", "graph_maxnodes", "extra_mods", "lower", "alias"):
            del c["options"][k]
        else:
            continue
        yield "option " + k, c


def minimise(case, seed, variant, sig, workdir, budget=60):
    from fordsim import shrink as SH
    locus_part = sig.split("|", 1)[1]
    v = reduce_plan(case, seed, variant, locus_part, os.path.join(workdir, "plan"))
    newsig = "%s|%s" % ("+".join(differing_dims(v["dims"])), locus_part)

    def test(cand, slot):
        dims = dict(v["dims"])
        if dims["order"] and dims["order"].get("mode") == "explicit":
            f, _, _, _ = build_files(cand, seed)
            srcs = sorted(x for x in f if x.endswith(".f90") or x.endswith(".inc"))
            dims["order"] = {"mode": "reverse"}
        r = evaluate(cand, seed, [{"name": "s", "dims": dims}], os.path.join(workdir, "s%d" % slot))
        return (not r["harness"]) and any(f[0] == newsig for f in r["findings"])

    # make the order plan world-independent if possible so that shrinking the world keeps it meaningful
    if v["dims"]["order"] and v["dims"]["order"].get("mode") == "explicit":
        trial = dict(v["dims"])
        trial["order"] = {"mode": "reverse"}
        r = evaluate(case, seed, [{"name": "rev", "dims": trial}], os.path.join(workdir, "plan"))
        if any(f[0] == newsig for f in r["findings"]):
            v = {"name": v["name"], "dims": trial}
    cur, steps = SH.shrink(case, case_candidates, test, budget=budget)
    return cur, v, newsig


def confirm(case, seed, variant, sig, workdir):
    """Twice from cold; then classify: shim-free reproduction or address-order."""
    info = {}
    for k in range(2):
        r = evaluate(case, seed, [variant], os.path.join(workdir, "c%d" % k))
        if not any(f[0] == sig for f in r["findings"]):
            return None
        info["what"] = [f[1] for f in r["findings"] if f[0] == sig][0]
        info["detail"] = [f[3] for f in r["findings"] if f[0] == sig][0]
    dd = set(differing_dims(variant["dims"]))
    files, argv, out_rel, graph_rel = build_files(case, seed)
    sb = os.path.join(workdir, "sf", "root")
    wk = os.path.join(workdir, "sf", "work")
    if dd <= {"hashseed", "history"} and variant["dims"]["order"] is None or dd <= {"history"}:
        # realisable without the shim at all
        dims0 = dict(REF)
        r0, d0 = run_variant(sb, files, argv, out_rel, graph_rel, dims0, wk, "ref", shim=False)
        r1, d1 = run_variant(sb, files, argv, out_rel, graph_rel, variant["dims"], wk, "var", shim=False)
        info["shim_free"] = bool(d0 != d1 or outcome_key(r0) != outcome_key(r1))
    else:
        # heap-pad probe: does the difference move when only the allocation history changes?
        stable = 0
        for pad in (1500, 6000):
            dr = run_variant(sb, files, argv, out_rel, graph_rel, REF, wk, "ref", heap_pad=pad)[1]
            dv = run_variant(sb, files, argv, out_rel, graph_rel, variant["dims"], wk, "var", heap_pad=pad)[1]
            if dr != dv:
                stable += 1
        info["heap_pad_stable"] = stable
        info["address_order_suspect"] = stable < 2
    O.wipe(os.path.join(workdir, "sf"))
    return info


def replay_case(rep, workdir):
    if rep.get("workdir"):   # a path-dependent (address-order) finding: replay at the recorded absolute path
        try:
            return evaluate(rep["case"], rep["seed_used"], [rep["variant"]], rep["workdir"])
        finally:
            O.wipe(rep["workdir"])
            try:
                os.rmdir(os.path.dirname(rep["workdir"]))
            except OSError:
                pass
    return evaluate(rep["case"], rep["seed_used"], [rep["variant"]], workdir)


def main():
    args = check.parse_args(PROP)
    rep = check.Report(args, "exploration",
                       "one evaluation = one cold, fully simulated FORD run (initialize+main) of a generated multi-file world; "
                       "variants change hash seed / source-set order / directory order / workers+interleaving / output-dir history / clock; "
                       "distinct_nontrivial counts distinct (world, variant) pairs in which the changed dimension demonstrably took effect "
                       "(permuted order actually applied to >=2 files, pool ran >=1 task, stale dir non-empty, different hash seed)")
    batch = O.new_batch_dir("c12")
    try:
        if args.replay:
            with open(args.replay) as f:
                case = json.load(f)
            r = replay_case(case, os.path.join(batch, "replay"))
            for h in r["harness"]:
                print("HARNESS-ERROR property=%s %s" % (PROP, h))
            hit = [f for f in r["findings"] if f[0] == case["signature"]]
            if hit:
                print("VIOLATION property=%s replay=%s signature=%s :: %s" % (PROP, args.replay, hit[0][0], hit[0][1]))
                return 1
            print("replay: no violation (signature %s not reproduced; got %s)" % (case["signature"], [f[0] for f in r["findings"]]))
            return 2 if r["harness"] else 0
        cdir = os.path.join(check.VERIF, "corpus", PROP)
        n_corpus = 0
        if os.path.isdir(cdir):
            for fn in sorted(os.listdir(cdir)):
                if not fn.endswith(".json"):
                    continue
                with open(os.path.join(cdir, fn)) as f:
                    case = json.load(f)
                r = replay_case(case, os.path.join(batch, "corpus"))
                n_corpus += 1
                rep.cov["evaluations"] += r["n"]
                rep.cov["cold_runs"] += r["n"]
                for h in r["harness"]:
                    rep.harness_error("corpus %s: %s" % (fn, h))
                for sig, what, var, detail in r["findings"]:
                    rep.violation(sig, what + " [regression corpus %s]" % fn,
                                  {"case": case["case"], "variant": var, "seed_used": case["seed_used"], "observed": detail})
        rep.cov["fixed_regressions_passed"] = n_corpus
        n_worlds = args.worlds or (30 if args.tier == "quick" else 1500)
        budget = args.budget or (80 if args.tier == "quick" else 1500)
        tasks = [(args.seed, i, args.tier, batch) for i in range(n_worlds)]
        to_min = []
        worlds = 0
        inter = set()
        for i, r in O.map_worlds(world_task, tasks, jobs=args.jobs, budget_s=budget):
            if isinstance(r, Exception):
                rep.harness_error("world %d: %r" % (i, r))
                continue
            worlds += 1
            rep.cov["evaluations"] += r["n"]
            rep.cov["cold_runs"] += r["n"]
            rep.cov["simulated_time_s"] += r["simtime"]
            inter.update(r["interleavings"])
            for h in r["harness"]:
                rep.harness_error("world %d: %s" % (i, h))
            for k, v in r["stats"].items():
                rep.probe(k, v)
            rep.count("layout_" + r["layout"])
            rep.count("ref_outcome_" + str(r["ref_outcome"]))
            for name, dd in r["variants"]:
                rep.nontrivial((i, name))
                for d in dd:
                    rep.fault("dimension_" + d, configured=1, fired=1)
            rep.sample(r["sample"])
            for sig, what, var, detail in r["findings"]:
                if any(e["signature"] == sig for e in rep.known):
                    rep.violation(sig, what, {})
                elif not any(t[1] == sig for t in to_min):
                    to_min.append((i, sig, what, var))
        # minimise, confirm, classify
        done_sigs = set()
        for k, (i, sig, what, var) in enumerate(to_min[:12]):
            case = gen_case(args.seed, i)
            wd = os.path.join(batch, "min%d" % k)
            if k < 4:
                mcase, mvar, msig = minimise(case, args.seed, var, sig, wd, budget=60)
            else:
                mcase, mvar, msig = case, var, sig
            if msig in done_sigs:
                continue
            info = confirm(mcase, args.seed, mvar, msig, wd)
            if info is None:
                mcase, mvar, msig = case, var, sig
                info = confirm(mcase, args.seed, mvar, msig, wd)
            path_dependent = None
            if info is None:
                # Output that depends on object addresses reacts to the absolute sandbox path (it reaches
                # the heap layout through every path string).  Such a dependence is a genuine C12 defect,
                # so before giving up re-confirm at exactly the path where it was found; the replay file
                # then pins that path.
                orig = os.path.join(batch, "w%d" % i)
                hits = 0
                for _ in range(2):
                    r2 = evaluate(case, args.seed, [var], orig)
                    hit = [f for f in r2["findings"] if f[0] == sig]
                    if hit:
                        hits += 1
                        info = {"what": hit[0][1], "detail": hit[0][3], "address_order_suspect": True,
                                "note": "reproduces only at the original sandbox path"}
                O.wipe(orig)
                if hits < 2:
                    rep.harness_error("finding %s in world %d did not reproduce twice from cold" % (sig, i))
                    continue
                path_dependent = orig
            if info.get("address_order_suspect") and not msig.startswith("address-order|"):
                msig = "address-order|" + msig.split("|", 1)[1]
            done_sigs.add(msig)
            files, argv, out_rel, graph_rel = build_files(mcase, args.seed)
            payload = {"case": mcase, "variant": mvar, "seed_used": args.seed,
                       "files": files, "argv": argv, "observed": info, "found_in_world": i}
            if path_dependent:
                payload["workdir"] = path_dependent
            rep.violation(msig, info["what"], payload)
            O.wipe(wd)
        rep.cov["worlds"] = worlds
        rep.cov["seeds_per_hour"] = int(worlds / max(1e-9, time.monotonic() - rep.t0) * 3600)
        rep.cov["distinct_interleavings"] = len(inter)
        rep.assumptions += ["all variants of a world run at the same absolute path, in a scrubbed environment, ASLR off",
                            "mtimes/modes are not compared; year is the real calendar year in every run of a batch",
                            "graph_dir outside the output dir: only its final content is compared (history applies to output_dir only)",
                            "a clean batch is evidence over the seeds explored, not proof"]
        return rep.finish()
    finally:
        O.wipe(batch)


if __name__ == "__main__":
    sys.exit(main())
