#!/venv/bin/python
"""C19 -- a run touches nothing outside its output directory (and graph
directory), whatever the placement, the options, and wherever the run fails.

Fault enumeration under deterministic simulation: a fault-free cold run records
the numbered file-system operations of the run; then, for a stratified (quick)
or complete (thorough sweeps) set of operation indices k, the same run is
repeated with exactly one injected failure at operation k -- an errno from the
menu, a torn write, a failing child process, or kill -9 immediately before k.
Oracle, identical for completed, failed and killed runs: (a) every mutating
operation the shim saw resolves under an allowed root; (b) a content+metadata
snapshot of the whole sandbox outside the allowed roots is unchanged; (c) in
refusal placements (output dir equal to / above a source dir) FORD stops with an
error naming the source directory before the first mutation.
"""
import json
import os
import sys
import time

sys.path.insert(0, os.path.dirname(os.path.dirname(os.path.abspath(__file__))))
from fordsim import check, seeds, world as W  # noqa: E402
from fordsim import orchestrate as O  # noqa: E402

PROP = "C19"
MUTATING = {"mkdir", "rmdir", "unlink", "rename", "utime", "chmod", "symlink", "link", "truncate",
            "open-w", "os.open-w", "sendfile"}
PLACEMENTS = ["sibling", "nested", "abs", "dotdot", "symlink", "prestale", "cli", "prefile", "spaced"]
REFUSALS = ["eq_src", "above_src", "above_dotdot", "above_symlink", "cli_above", "cli_eq_src", "above_deep", "above_deep2"]
ERRNO_FOR = {
    "open-w": ["ENOSPC", "EACCES", "EIO", "EROFS", "EMFILE", "EISDIR"],
    "os.open-w": ["ENOSPC", "EACCES", "EROFS", "EMFILE"],
    "open-r": ["EACCES", "EIO", "ENOENT", "EMFILE"],
    "os.open-r": ["EACCES", "ENOENT", "EMFILE"],
    "mkdir": ["ENOSPC", "EACCES", "EEXIST", "EROFS"],
    "rmdir": ["EACCES", "EPERM", "EIO", "ENOTDIR"],
    "unlink": ["EACCES", "EPERM", "EIO", "EROFS"],
    "rename": ["EACCES", "ENOSPC", "EIO"],
    "utime": ["EPERM", "EROFS", "ENOENT"],
    "chmod": ["EPERM", "EROFS", "ENOENT"],
    "scandir": ["EACCES", "EMFILE", "ENOENT", "EIO"],
    "listdir": ["EACCES", "EMFILE", "ENOENT"],
    "sendfile": ["ENOSPC", "EIO"],
    "popen": ["ENOENT", "EMFILE", "EACCES"],
    "symlink": ["EACCES"], "link": ["EACCES"], "truncate": ["EIO"],
}


# --------------------------------------------------------------------- worlds
def gen_case(seed, idx):
    rng = seeds.stream(seed, PROP, idx, "world")
    w = W.gen_modgraph(rng, {"max_mods": 3, "min_mods": 1, "max_ents": 3, "unknown_uses": True,
                             "extras": rng.random() < 0.3})
    # stratified, not drawn: every placement occurs in every batch of 48 consecutive worlds
    rng.random()
    rng.random()
    refusal = idx % 6 == 5
    place = REFUSALS[(idx // 6) % len(REFUSALS)] if refusal else PLACEMENTS[(idx - idx // 6) % len(PLACEMENTS)]
    opts = {"project": "C19 world %d" % idx, "preprocess": False, "parallel": 0,
            "search": rng.random() < 0.6, "graph": rng.random() < 0.5, "incl_src": rng.random() < 0.7,
            "externalize": rng.random() < 0.5, "warn": rng.random() < 0.2}
    case = {"idx": idx, "world": w, "place": place, "refusal": refusal, "options": opts,
            "cwd": rng.choice(["proj", "proj", "root", "elsewhere"]),
            "pages": rng.random() < 0.5, "copy_subdir": rng.random() < 0.5,
            "copy_outside": rng.choice([None, None, "abs", "rel_existing"]), "two_src": rng.random() < 0.3, "page_symlink": rng.random() < 0.35, "same_basename": rng.random() < 0.35,
            "media": rng.choice([None, "ok", "missing"]), "css": rng.random() < 0.4,
            "favicon": rng.random() < 0.3, "mathjax": rng.random() < 0.3, "extra_ft": rng.random() < 0.3,
            "graph_dir": rng.choice([None, "in", "out", "out_abs", "holds_inputs"]) if opts["graph"] else None,
            "parallel": rng.choice([0, 0, 2]) if opts["graph"] else 0}
    return case


def build(case, seed, root):
    """-> (files, argv, cwd_abs, allowed_roots(real, absolute), out_abs, srcdirs_abs)"""
    idx = case["idx"]
    src = W.render_sources(case["world"], seeds.stream(seed, PROP, idx, "render"))
    opts = dict(case["options"])
    files = {"home/.keep": "", "elsewhere/.keep": "",
             "precious/a.txt": "precious a\n", "precious/deep/b.txt": "precious b\n",
             "precious/ro.txt": {"text": "read only\n", "mode": 0o444},
             "precious/deep/more/c.bin": {"b64": "AAECAwQFBgcICQ=="},
             "sibling/proj2/doc/index.html": "<html>sibling docs</html>",
             "sibling/proj2/src/other.f90": "module other\nend module other\n",
             "sibling/proj2/modules.json": "{\"keep\": 1}",
             "farm/link_dir": {"symlink": "../precious"}, "farm/link_file": {"symlink": "../precious/a.txt"},
             "farm/dangling": {"symlink": "../nowhere"},
             "modules.json": "{\"bystander at root\": true}", "search_database.json": "bystander",
             "proj/README.txt": "next to the project file\n", "proj/modules.json.bak": "bystander\n"}
    for k, v in src.items():
        files["proj/" + k] = v
    opts["src_dir"] = "./src"
    argv_extra = []
    place = case["place"]
    P = os.path.join(root, "proj")
    if place == "sibling":
        opts["output_dir"] = "./doc"
        out = P + "/doc"
    elif place == "nested":
        opts["output_dir"] = "./build/docs/api"
        out = P + "/build/docs/api"
    elif place == "abs":
        opts["output_dir"] = root + "/outs/abs_out"
        out = root + "/outs/abs_out"
    elif place == "dotdot":
        opts["output_dir"] = "../outside_doc"
        out = root + "/outside_doc"
    elif place == "symlink":
        opts["output_dir"] = "./doclink"
        files["proj/doclink"] = {"symlink": "../realdocs"}
        files["realdocs/old.html"] = "old content of the real docs dir"
        out = root + "/realdocs"
    elif place == "prestale":
        opts["output_dir"] = "./doc"
        files["proj/doc/index.html"] = "stale"
        files["proj/doc/module/old.html"] = "stale"
        files["proj/doc/evil_dir"] = {"symlink": "../../precious"}
        files["proj/doc/evil_file"] = {"symlink": "../../precious/a.txt"}
        files["proj/doc/deep/evil_sibling"] = {"symlink": "../../../sibling/proj2"}
        files["proj/doc/ro/locked.txt"] = {"text": "ro", "mode": 0o444}
        out = P + "/doc"
    elif place == "prefile":
        opts["output_dir"] = "./doc"
        files["proj/doc"] = "a regular file where the output directory should be\n"
        out = P + "/doc"
    elif place == "cli":
        argv_extra = ["-o", "clidoc"]
        out = P + "/clidoc"
    elif place == "spaced":
        opts["output_dir"] = "./my docs/api v1.2"
        files["proj/my docs/keep me.txt"] = "a bystander next to the output directory, with a blank in its name\n"
        out = P + "/my docs/api v1.2"
    elif place == "eq_src":
        opts["output_dir"] = "./src"
        out = P + "/src"
    elif place == "above_src":
        opts["output_dir"] = "."
        out = P
    elif place == "above_dotdot":
        opts["output_dir"] = "./src/../../proj"
        out = P
    elif place == "above_symlink":
        opts["output_dir"] = "./uplink"
        files["proj/uplink"] = {"symlink": "."}
        out = P
    elif place == "cli_above":
        opts["output_dir"] = "./doc"
        argv_extra = ["-o", "."]
        out = P
    elif place == "cli_eq_src":
        argv_extra = ["-o", "src"]
        out = P + "/src"
    elif place in ("above_deep", "above_deep2"):
        # two source directories; the second lies two or three levels below the output directory
        deep = "build/generated/src" if place == "above_deep" else "build/a/b/src"
        opts["src_dir"] = ["./src", "./" + deep]
        opts["output_dir"] = "./build"
        files["proj/%s/gen.f90" % deep] = "module genmod\n  !! generated source\nend module genmod\n"
        files["proj/build/generated_README"] = "kept next to generated sources\n"
        out = P + "/build"
        srcdirs_extra = [P + "/" + deep]
    else:
        raise ValueError(place)
    allowed = [out]
    gd = case.get("graph_dir")
    if gd == "in":
        if place in ("sibling", "nested", "prestale", "prefile", "spaced"):
            opts["graph_dir"] = opts["output_dir"] + "/graphs"
        else:
            opts["graph_dir"] = out + "/graphs"
    elif gd == "out":
        opts["graph_dir"] = "./graphs_out"
        allowed.append(P + "/graphs_out")
    elif gd == "out_abs":
        opts["graph_dir"] = root + "/outs/graphs_abs"
        allowed.append(root + "/outs/graphs_abs")
    elif gd == "holds_inputs":
        # the graph directory is a directory the user also keeps other things in: FORD may add its graph
        # files there, but what is already there must stay byte-identical
        opts["graph_dir"] = "./figures"
        files["proj/figures/logo.svg"] = "<svg>user's own figure</svg>\n"
        files["proj/figures/notes.txt"] = "kept with the figures\n"
        files["proj/figures/raw/data.csv"] = "1,2\n"
        allowed.append(P + "/figures")
    if case.get("parallel"):
        opts["parallel"] = case["parallel"]
    if case.get("pages"):
        opts["page_dir"] = "./pages"
        files["proj/pages/index.md"] = "title: Top\n\nTop text. [a](./a.html)\n"
        files["proj/pages/a.md"] = "title: Page A\n\nA text\n"
        files["proj/pages/notitle.md"] = "no metadata here\n"
        files["proj/pages/data.csv"] = "1,2,3\n"
        cs = ["assets"] if case.get("copy_subdir") else []
        if case.get("copy_outside") == "abs":
            # legal but unusual: an absolute path; FORD's copy then has source == destination == that
            # directory and must fail harmlessly ("could not copy directory")
            cs.append(root + "/precious/deep")
        elif case.get("copy_outside") == "rel_existing":
            # a relative entry whose *destination* (<out>/page/sub/<entry>) resolves to an existing
            # bystander directory: the copy must fail without touching it
            cs.append(os.path.relpath(root + "/precious", out + "/page/sub"))
        meta = ""
        if cs:
            meta = "copy_subdir: %s\n" % cs[0] + "".join("    %s\n" % x for x in cs[1:])
        files["proj/pages/sub/index.md"] = "title: Sub\n%s\nSub text\n" % meta
        files["proj/pages/sub/z.md"] = "title: Z\n\nZ text\n"
        files["proj/pages/sub/assets/img.png"] = "png"
        files["proj/pages/sub/assets/deeper/x.txt"] = "x"
        files["proj/pages/sub/plain.txt"] = "plain"
        if case.get("page_symlink"):
            # a page sub-directory that is a symlink to a directory two levels up, outside page_dir
            files["apisrc/index.md"] = "title: Api\n\nApi pages kept elsewhere\n"
            files["apisrc/detail.md"] = "title: Detail\n\nDetail\n"
            files["apisrc/raw.dat"] = "raw"
            files["proj/pages/apilink"] = {"symlink": "../../apisrc"}
            # a page asset that is a symlink (absolute target) to a bystander file and is named like the output of
            # the sibling page z.md: the copy in the output must be a private one (seeded change C19-r7-1)
            files["proj/pages/sub/z.html"] = {"symlink": root + "/precious/a.txt"}
        if case.get("copy_subdir"):
            opts["copy_subdir"] = ["assets", "nonexistent_subdir"]
    if case.get("media") == "ok":
        opts["media_dir"] = "./media"
        for n in ("a.png", "b/c.txt", "with blank.txt"):
            files["proj/media/" + n] = "media " + n
        files["proj/media/link_out"] = {"symlink": "../../precious/a.txt"}
    elif case.get("media") == "missing":
        opts["media_dir"] = "./no_such_media"
    if case.get("css"):
        opts["css"] = "./custom.css"
        files["proj/custom.css"] = "body { color: red }\n"
    if case.get("favicon"):
        opts["favicon"] = "./fav.png"
        files["proj/fav.png"] = "not really a png"
    if case.get("mathjax"):
        opts["mathjax_config"] = "./mj/conf.js"
        files["proj/mj/conf.js"] = "window.MathJax = {};\n"
    if case.get("extra_ft"):
        opts["extra_filetypes"] = "inc !"
        files["proj/src/defs.inc"] = "!! documented extra file\ninteger :: incvar\n"
    if case.get("same_basename") and not case["refusal"]:
        files["proj/src/core/util.f90"] = "module core_util\n  !! util in core\nend module core_util\n"
        files["proj/src/legacy/util.f90"] = "module legacy_util\n  !! util in legacy\nend module legacy_util\n"
    if case.get("two_src") and not case["refusal"]:
        opts["src_dir"] = ["./src", "./more/src2"]
        files["proj/more/src2/extra.f90"] = "module extramod\n  !! second source dir\nend module extramod\n"
    files["proj/proj.md"] = W.render_project_file(opts, "Body text.\n")
    cwdk = case["cwd"]
    if cwdk == "proj":
        cwd, pf = P, "proj.md"
    elif cwdk == "root":
        cwd, pf = root, "proj/proj.md"
    else:
        cwd, pf = root + "/elsewhere", "../proj/proj.md"
    argv = ["ford", pf] + argv_extra
    return files, argv, cwd, allowed, out, [P + "/src"]


# ---------------------------------------------------------------------- oracle
def under(p, roots):
    return any(p == r or p.startswith(r + "/") for r in roots)


def is_ancestor_of_root(p, roots):
    return any(r.startswith(p + "/") for r in roots)


def check_run(case, root, allowed, before, r, refusal):
    """-> list of (signature, what)"""
    out = []
    real_allowed = [os.path.realpath(a) for a in allowed]
    # (a) operation log
    n_mut = 0
    failed = {op[1] for op in r["ops"] if op and op[0] == "fail"}
    for op in r["ops"]:
        if not isinstance(op[0], int) or len(op) < 5:
            continue
        if op[0] in failed:
            continue  # the real call raised: an attempt that had no effect on the file system
        if any(isinstance(x, dict) and x.get("fault") in ("errno", "kill") for x in op):
            continue  # the injected fault replaced the call: it never reached the file system
        n, idx, kind, path = op[0], op[1], op[2], op[3]
        if not idx or kind not in MUTATING:
            continue
        n_mut += 1
        paths = [path]
        if kind == "rename" and isinstance(op[4], str) and len(op) > 5:
            paths.append(op[4])
        phase = [x for x in op[4:] if isinstance(x, str) and not (x.startswith("w") and x[1:].isdigit())]
        phase = phase[-1] if phase else "?"
        for p in paths:
            ap = p if os.path.isabs(p) else os.path.join(root, p)
            if refusal:
                out.append(("refusal/mutation-before-refusal/%s" % kind,
                            "refusal placement '%s' but FORD performed %s on %s (phase %s) instead of refusing first" % (case["place"], kind, p, phase)))
                continue
            if under(ap, real_allowed):
                continue
            if kind == "mkdir" and is_ancestor_of_root(ap, real_allowed):
                continue
            out.append(("escape/oplog/%s/%s" % (kind, phase),
                        "mutating operation %s on %s (phase %s) lies outside the allowed roots %s" % (kind, p, phase, [os.path.relpath(a, root) for a in real_allowed])))
    # (b) snapshot
    excl = [] if refusal else real_allowed
    after = O.snapshot(root, exclude=excl)
    for rel in sorted(set(before) | set(after)):
        b, a = before.get(rel), after.get(rel)
        if a == b:
            continue
        ap = os.path.join(root, rel)
        if not refusal and is_ancestor_of_root(ap, real_allowed):
            if b is None and a and a[0] == "d":
                continue  # a not-yet-existing ancestor created by mkdir(parents=True)
            if a and b and a[0] == "d" and b[0] == "d" and a[:4] == b[:4]:
                continue  # only the mtime of an ancestor directory changed
        if b is None:
            what, cls = "created", "created"
        elif a is None:
            what, cls = "deleted", "deleted"
        elif a[:4] != b[:4]:
            what, cls = "modified (%s -> %s)" % (b[:4], a[:4]), "modified"
        else:
            what, cls = "mtime changed", "mtime"
        pc = rel.split("/")[0]
        out.append(("escape/snapshot/%s/%s" % (cls, pc if pc in ("precious", "sibling", "farm", "home", "elsewhere", "proj") else "root"),
                    "%s was %s by the run (outside the allowed roots)" % (rel, what)))
    return out, n_mut


def classify_ops(ops):
    """eligible ops of the fault-free run -> list of dicts"""
    res = []
    seen = {}
    for op in ops:
        if not isinstance(op[0], int) or len(op) < 5 or not op[1]:
            continue
        strs = [x for x in op[4:] if isinstance(x, str)]
        phase = [x for x in strs if not (x.startswith("w") and x[1:].isdigit())]
        key = (op[2], op[3])
        seen[key] = seen.get(key, 0) + 1
        # an operation is identified by (kind, path, occurrence): the order in which FORD writes
        # independent graph files follows id()-hashed sets and is not part of any property
        res.append({"idx": op[1], "kind": op[2], "path": op[3], "phase": phase[-1] if phase else "?", "nth": seen[key]})
    return res


def path_class(p):
    parts = p.split("/")
    for i, x in enumerate(parts):
        if x in ("doc", "clidoc", "abs_out", "outside_doc", "realdocs", "api", "api v1.2"):
            return "/".join(parts[i + 1:i + 2]) or "<outdir>"
    return parts[1] if len(parts) > 1 else parts[0]


def make_fault_plans(rng, ops, n_want, sweep=False):
    plans = []
    if sweep:
        for o in ops:
            acts = ["kill"]
            en = ERRNO_FOR.get(o["kind"])
            if en:
                acts.append(("errno", rng.choice(en)))
            if o["kind"] == "open-w":
                acts.append(("torn", rng.choice([0, 1, 17, 200])))
            if o["kind"] == "popen":
                acts.append("childfail")
            for a in acts:
                plans.append((o, a))
        return plans
    groups = {}
    for o in ops:
        groups.setdefault((o["phase"], o["kind"], path_class(o["path"])), []).append(o)
    keys = sorted(groups)
    rng.shuffle(keys)
    i = 0
    while len(plans) < n_want and keys:
        g = groups[keys[i % len(keys)]]
        o = rng.choice(g)
        r = rng.random()
        en = ERRNO_FOR.get(o["kind"])
        if r < 0.3:
            a = "kill"
        elif o["kind"] == "open-w" and r < 0.5:
            a = ("torn", rng.choice([0, 1, 17, 200, 5000]))
        elif o["kind"] == "popen" and r < 0.6:
            a = "childfail"
        elif en:
            a = ("errno", rng.choice(en))
        else:
            a = "kill"
        plans.append((o, a))
        i += 1
        if i >= 4 * len(keys) and len(plans) >= n_want:
            break
    return plans


def fault_spec(o, a):
    base = {"kind": o["kind"], "path": o["path"], "nth": o["nth"], "op": None, "at": o["idx"], "in_phase": o["phase"]}
    del base["op"]
    if a == "kill":
        return dict(base, action="kill")
    if a == "childfail":
        return dict(base, action="childfail")
    if a[0] == "errno":
        return dict(base, action="errno", errno=a[1])
    return dict(base, action="torn", keep=a[1])


def run_once(case, seed, workdir, faults, pool_seed=1):
    root = os.path.join(workdir, "root")
    O.wipe(root)
    files, argv, cwd, allowed, out, srcdirs = build(case, seed, root)
    O.materialise(files, root)
    before = O.snapshot(root, exclude=[] if case["refusal"] else [os.path.realpath(a) for a in allowed])
    pre_graph = None
    if case.get("graph_dir") == "holds_inputs" and not case["refusal"]:
        pre_graph = O.snapshot(os.path.join(root, "proj", "figures"), meta=False)
    spec = {"sandbox": root, "cwd": cwd, "argv": argv, "mode": "full", "order_plan": {"mode": "sorted"},
            "dir_order": "sorted", "clock": {"seed": 0}, "faults": faults,
            "pool": {"sim": True, "seed": pool_seed}}
    r = O.run_cold(spec, os.path.join(workdir, "work"), hashseed=0, timeout=180)
    findings, n_mut = check_run(case, root, allowed, before, r, case["refusal"])
    if pre_graph is not None:
        post = O.snapshot(os.path.join(root, "proj", "figures"), meta=False)
        for rel, v in sorted(pre_graph.items()):
            if post.get(rel) != v:
                findings.append(("escape/graph-dir-preexisting/%s" % ("deleted" if rel not in post else "modified"),
                                 "figures/%s was in the graph directory before the run and was %s by it" % (rel, "deleted" if rel not in post else "modified")))
    return r, findings, n_mut, (root, allowed, srcdirs)


def evaluate(case, seed, workdir, tier, plans=None, sweep=False):
    """plans: explicit list of fault lists (replay); else generated from the fault-free run."""
    out = {"findings": [], "harness": [], "n": 0, "fired": {}, "configured": {}, "probes": {}, "traces": set(),
           "nontrivial": []}
    r0, f0, n_mut, (root, allowed, srcdirs) = run_once(case, seed, workdir, [])
    out["n"] += 1
    if r0["status"] != "ok":
        out["harness"].append("fault-free run: %s\n%s" % (r0["status"], r0["stdout"][-1200:]))
        return out
    oc = r0["result"]["outcome"]
    for sig, what in f0:
        out["findings"].append((sig, "[fault-free] " + what, []))
    pr = out["probes"]
    pr["cwd_" + case["cwd"]] = 1
    pr["place_" + case["place"]] = 1
    if case["refusal"]:
        pr["refusal_reached"] = 1
        ok = oc["kind"] == "exception" and oc.get("cls") == "ValueError" and "src" in (oc.get("msg") or "")
        if not ok:
            out["findings"].append(("refusal/not-refused", "output_dir %s contains a source directory (placement %s) but FORD did not refuse: outcome %s"
                                    % (os.path.relpath(allowed[0], root), case["place"], json.dumps(oc)[:300]), []))
        return out
    if oc["kind"] != "ok":
        out["findings"].append(("fault-free-run-failed/%s" % oc.get("cls", oc["kind"]),
                                "fault-free run in a non-refusal placement (%s) failed: %s" % (case["place"], json.dumps(oc)[:500]), []))
        return out
    for tag in ("error copying media directory", "could not copy"):
        if tag in r0["stdout"]:
            pr["handled_warning_" + tag.replace(" ", "_")] = 1
    if "Could not create output directory" in r0["stdout"]:
        pr["could_not_create_output_dir"] = 1
    ops = classify_ops(r0["ops"])
    rng = seeds.stream(seed, PROP, case["idx"], "fault")
    if plans is None:
        n_want = 12 if tier == "quick" else 40
        fl = make_fault_plans(rng, ops, n_want, sweep=sweep)
        plans = [[fault_spec(o, a)] for o, a in fl]
        if tier == "thorough" and not sweep:
            for _ in range(6):  # two-fault plans: a handled error followed by a second failure
                if len(fl) >= 2:
                    (o1, a1), (o2, a2) = sorted(rng.sample(fl, 2), key=lambda t: t[0]["idx"])
                    if a1 != "kill" and o1["idx"] != o2["idx"] and (o1["kind"], o1["path"]) != (o2["kind"], o2["path"]):
                        plans.append([fault_spec(o1, a1), fault_spec(o2, a2)])
    byidx = {o["idx"]: o for o in ops}
    for plan in plans:
        r, fnd, nm, _ = run_once(case, seed, workdir, plan)
        out["n"] += 1
        for f in plan:
            key = f["action"] + (":" + f["errno"] if f.get("errno") else "")
            out["configured"][key] = out["configured"].get(key, 0) + 1
        if r["status"] == "harness-error" or r["status"] == "timeout":
            out["harness"].append("faulted run %s: %s\n%s" % (plan, r["status"], r["stdout"][-800:]))
            continue
        fired = []
        if r["status"] == "killed":
            fired = [f for f in plan if f["action"] == "kill"]
            last = [op for op in r["ops"] if isinstance(op[0], int)]
            ph = plan[-1].get("in_phase", "?")
            pr["kill_in_phase_" + ph] = pr.get("kill_in_phase_" + ph, 0) + 1
            out["fired"]["kill"] = out["fired"].get("kill", 0) + 1
        else:
            for f in r["result"].get("fired", []):
                key = f["action"] + (":" + f["errno"] if f.get("errno") else "")
                out["fired"][key] = out["fired"].get(key, 0) + 1
                pr["fault_in_phase_" + f["phase"]] = pr.get("fault_in_phase_" + f["phase"], 0) + 1
                pr["fault_on_" + f["kind"]] = pr.get("fault_on_" + f["kind"], 0) + 1
                if f["op"] != plan[0].get("at"):
                    pr["op_index_moved"] = pr.get("op_index_moved", 0) + 1
            for k, v in (r["result"].get("probes") or {}).items():
                if k in ("torn_write_fired", "childfail_fired"):
                    pr[k] = pr.get(k, 0) + v
            if r["result"]["outcome"]["kind"] == "ok":
                pr["run_survived_fault"] = pr.get("run_survived_fault", 0) + 1
        o = plan[0]
        out["nontrivial"].append((case["idx"], o["kind"], o["path"], o["nth"], plan[0]["action"], plan[0].get("errno"), len(plan)))
        out["traces"].add("%s/%s/%s" % (o.get("in_phase"), o.get("kind"), plan[0]["action"]))
        for sig, what in fnd:
            out["findings"].append((sig, "[fault %s at %s #%d of %s, phase %s] %s"
                                    % (plan[0]["action"] + (":" + plan[0]["errno"] if plan[0].get("errno") else ""),
                                       o.get("kind"), o.get("nth"), o.get("path"), o.get("in_phase"), what), plan))
    out["traces"] = sorted(out["traces"])
    out["n_ops"] = len(ops)
    out["n_mut"] = n_mut
    return out


def world_task(seed, idx, tier, batch, sweep=False):
    workdir = os.path.join(batch, "w%d" % idx)
    case = gen_case(seed, idx)
    r = evaluate(case, seed, workdir, tier, sweep=sweep)
    r["idx"] = idx
    r["place"] = case["place"]
    r["sample"] = {"place": case["place"], "cwd": case["cwd"], "graph_dir": case["graph_dir"],
                   "options": case["options"], "n_eligible_ops": r.get("n_ops"),
                   "faults": [list(x)[1:] for x in r["nontrivial"][:4]]}
    seen = set()
    f2 = []
    for f in r["findings"]:
        if f[0] not in seen:
            seen.add(f[0])
            f2.append(f)
    r["findings"] = f2
    O.wipe(workdir)
    return r


def case_candidates(case):
    import copy
    for desc, w in W.shrink_candidates(case["world"]):
        if w["mods"]:
            c = copy.deepcopy(case)
            c["world"] = w
            yield desc, c
    for k in ("pages", "copy_subdir", "css", "favicon", "mathjax", "extra_ft", "page_symlink", "two_src", "same_basename"):
        if case.get(k):
            c = copy.deepcopy(case)
            c[k] = False
            yield "no " + k, c
    for k in ("media", "graph_dir", "copy_outside"):
        if case.get(k):
            c = copy.deepcopy(case)
            c[k] = None
            yield "no " + k, c
    if case.get("parallel"):
        c = copy.deepcopy(case)
        c["parallel"] = 0
        yield "parallel 0", c
    if case["cwd"] != "proj":
        c = copy.deepcopy(case)
        c["cwd"] = "proj"
        yield "cwd proj", c
    for k, v in sorted(case["options"].items()):
        if isinstance(v, bool) and v:
            c = copy.deepcopy(case)
            c["options"][k] = False
            yield "option " + k, c


def minimise(case, seed, plan, sig, workdir, budget=60):
    """Shrink the world/options while the same signature persists.  A fault plan is
    re-targeted by (kind, path-suffix, phase) because op numbers move when the world shrinks."""
    from fordsim import shrink as SH
    if not plan:
        def test(cand, slot):
            r = evaluate(cand, seed, os.path.join(workdir, "s%d" % slot), "quick", plans=[])
            return (not r["harness"]) and any(f[0] == sig for f in r["findings"])
        cur, steps = SH.shrink(case, case_candidates, test, budget=budget)
        return cur, plan

    # faulted finding: the plan addresses its operation by (kind, path, occurrence), which stays
    # meaningful while the world shrinks as long as that path is still written
    def test_f(cand, slot):
        r = evaluate(cand, seed, os.path.join(workdir, "s%d" % slot), "quick", plans=[plan])
        return (not r["harness"]) and any(f[0] == sig for f in r["findings"])
    cur, steps = SH.shrink(case, case_candidates, test_f, budget=budget)
    return cur, plan


def main():
    args = check.parse_args(PROP)
    rep = check.Report(args, "fault_enumeration",
                       "one evaluation = one cold simulated FORD run of a generated sandbox (project + bystanders) under one placement of "
                       "output_dir/graph_dir, cwd and option set, fault-free or with exactly one (thorough: also two) injected fault at a numbered "
                       "file-system operation (errno, torn write, child failure, kill -9); distinct_nontrivial counts distinct "
                       "(world, op index, action, errno) plans whose run was executed and judged by the op-log + snapshot oracle")
    batch = O.new_batch_dir("c19")
    try:
        if args.replay:
            with open(args.replay) as f:
                case = json.load(f)
            r = evaluate(case["case"], case["seed_used"], os.path.join(batch, "replay"), "quick", plans=case["plans"])
            for h in r["harness"]:
                print("HARNESS-ERROR property=%s %s" % (PROP, h))
            hit = [f for f in r["findings"] if f[0] == case["signature"]]
            if hit:
                print("VIOLATION property=%s replay=%s signature=%s :: %s" % (PROP, args.replay, hit[0][0], hit[0][1]))
                return 1
            print("replay: no violation (signature %s not reproduced; got %s)" % (case["signature"], [f[0] for f in r["findings"]]))
            return 2 if r["harness"] else 0
        cdir = os.path.join(check.VERIF, "corpus", PROP)
        n_corpus = 0
        if os.path.isdir(cdir):
            for fn in sorted(os.listdir(cdir)):
                if fn.endswith(".json"):
                    with open(os.path.join(cdir, fn)) as f:
                        case = json.load(f)
                    r = evaluate(case["case"], case["seed_used"], os.path.join(batch, "corpus"), "quick", plans=case["plans"])
                    n_corpus += 1
                    rep.cov["evaluations"] += r["n"]
                    for h in r["harness"]:
                        rep.harness_error("corpus %s: %s" % (fn, h))
                    for sig, what, plan in r["findings"]:
                        rep.violation(sig, what + " [regression corpus %s]" % fn,
                                      {"case": case["case"], "plans": case["plans"], "seed_used": case["seed_used"]})
        rep.cov["fixed_regressions_passed"] = n_corpus
        n_worlds = args.worlds or (48 if args.tier == "quick" else 720)
        budget = args.budget or (70 if args.tier == "quick" else 1500)
        tasks = [(args.seed, i, args.tier, batch, False) for i in range(n_worlds)]
        if args.tier == "thorough":
            tasks += [(args.seed, 100000 + i, args.tier, batch, True) for i in range(24)]  # full sweeps
        worlds = 0
        traces = set()
        to_min = []
        for i, r in O.map_worlds(world_task, tasks, jobs=args.jobs, budget_s=budget):
            if isinstance(r, Exception):
                rep.harness_error("world %s: %r" % (tasks[i][1], r))
                continue
            worlds += 1
            rep.cov["evaluations"] += r["n"]
            rep.cov["cold_runs"] += r["n"]
            traces.update(r["traces"])
            for h in r["harness"]:
                rep.harness_error("world %d: %s" % (r["idx"], h))
            for k, v in r["probes"].items():
                rep.probe(k, v)
            for k, v in r["configured"].items():
                rep.fault(k, configured=v)
            for k, v in r["fired"].items():
                rep.fault(k, fired=v)
            for nt in r["nontrivial"]:
                rep.nontrivial(tuple(nt))
            rep.sample(r["sample"])
            for sig, what, plan in r["findings"]:
                if any(e["signature"] == sig for e in rep.known):
                    rep.violation(sig, what, {})
                elif not any(t[1] == sig for t in to_min):
                    to_min.append((r["idx"], sig, what, plan))
        for k, (i, sig, what, plan) in enumerate(to_min[:12]):
            case = gen_case(args.seed, i)
            wd = os.path.join(batch, "min%d" % k)
            mcase, mplan = minimise(case, args.seed, plan, sig, wd, budget=60) if k < 4 else (case, plan)
            ok = True
            what2 = what
            for c in range(2):
                r = evaluate(mcase, args.seed, os.path.join(wd, "c%d" % c), "quick", plans=[mplan] if mplan else [])
                hit = [f for f in r["findings"] if f[0] == sig]
                if not hit:
                    ok = False
                    break
                what2 = hit[0][1]
            if not ok:
                rep.harness_error("finding %s in world %d did not reproduce twice from cold" % (sig, i))
                continue
            root = os.path.join(wd, "show")
            files, argv, cwd, allowed, out, srcdirs = build(mcase, args.seed, root)
            rep.violation(sig, what2, {"case": mcase, "plans": [mplan] if mplan else [], "seed_used": args.seed,
                                       "argv": argv, "cwd": os.path.relpath(cwd, root), "files": files,
                                       "allowed_roots": [os.path.relpath(a, root) for a in allowed], "found_in_world": i})
            O.wipe(wd)
        rep.cov["worlds"] = worlds
        rep.cov["seeds_per_hour"] = int(worlds / max(1e-9, time.monotonic() - rep.t0) * 3600)
        rep.cov["distinct_fs_traces"] = len(traces)
        rep.cov["exhaustive"] = False
        rep.assumptions += ["crash model = process kill (kill -9 before operation k); power loss is not modelled",
                            "the shim sees Python-level operations; writes by child processes (dot -O) are judged by the before/after snapshot only",
                            "atime is never compared; mtime of ancestor directories of an allowed root may change",
                            "inputs are never placed inside the output or graph directory except source dirs in the refusal placements (the property's proviso)"]
        return rep.finish()
    finally:
        O.wipe(batch)


if __name__ == "__main__":
    sys.exit(main())
