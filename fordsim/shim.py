"""File-system / process / clock / pool / net shim, installed in the simulated
FORD process *before* ``ford`` is imported.

Every wrapped call is a numbered operation: it is logged (JSON lines to a raw
fd opened before the wrappers exist, so the log survives a simulated kill -9),
it is a pre-emption point for SimPool worker threads, and -- when its path lies
inside the sandbox and the shim is armed -- it can be failed, torn, or be the
kill point.  Directory enumeration results are returned in scheduler-chosen
order.  Nothing here reads a real clock or draws from a PRNG for logging.
"""
import builtins
import errno as _errno
import io
import json
import os
import subprocess
import sys
import threading

from .seeds import stream

# import before patching so that shutil keeps its fd-based rmtree (its
# capability probe compares the *original* os functions)
import shutil  # noqa: F401
import pathlib  # noqa: F401
import tempfile  # noqa: F401

_real = {}
for _n in ("mkdir rmdir unlink remove rename replace utime chmod symlink link "
           "truncate open scandir listdir sendfile readlink getcwd write close "
           "_exit fspath").split():
    _real[_n] = getattr(os, _n)
_real_open = builtins.open
_real_popen_init = subprocess.Popen.__init__
_real_realpath = os.path.realpath

ERRNOS = {n: getattr(_errno, n) for n in
          "ENOSPC EIO EACCES EROFS EMFILE ENOENT EEXIST ENOTDIR EISDIR EPERM".split()}

_W_FLAGS = os.O_WRONLY | os.O_RDWR | os.O_CREAT | os.O_TRUNC | os.O_APPEND


class _ScandirIter:
    def __init__(self, entries):
        self._it = iter(entries)

    def __iter__(self):
        return self

    def __next__(self):
        return next(self._it)

    def close(self):
        self._it = iter(())

    def __enter__(self):
        return self

    def __exit__(self, *a):
        self.close()
        return False


class TornFile:
    """Proxy around a writable file object: lets ``keep`` units through, then
    every further write raises ENOSPC (nothing more reaches the file)."""

    def __init__(self, f, keep, shim, path):
        self.__dict__["_f"] = f
        self.__dict__["_keep"] = keep
        self.__dict__["_shim"] = shim
        self.__dict__["_path"] = path

    def write(self, data):
        f = self._f
        if len(data) <= self._keep:
            self.__dict__["_keep"] = self._keep - len(data)
            return f.write(data)
        part = data[: self._keep]
        self.__dict__["_keep"] = 0
        if part:
            f.write(part)
        try:
            f.flush()
        except Exception:
            pass
        self._shim.probe("torn_write_fired")
        raise OSError(_errno.ENOSPC, "No space left on device (simulated torn write)", self._path)

    def writelines(self, lines):
        for l in lines:
            self.write(l)

    def __getattr__(self, name):
        return getattr(self._f, name)

    def __setattr__(self, name, value):
        setattr(self._f, name, value)

    def __enter__(self):
        self._f.__enter__()
        return self

    def __exit__(self, *a):
        return self._f.__exit__(*a)

    def __iter__(self):
        return iter(self._f)


class OrderedSet(set):
    """A set whose iteration order is the scheduler's choice (seam S1)."""

    def set_order(self, order):
        self._order = list(order)
        return self

    def __iter__(self):
        return iter(self._order)


class Shim:
    def __init__(self, spec, oplog_path):
        self.spec = spec
        self.sandbox = _real_realpath(spec["sandbox"])
        self.n = 0            # all operations
        self.e = 0            # eligible (armed, in-sandbox) operations
        self.armed = False
        self.phase = "import"
        self.main_pid = os.getpid()
        self.main_thread = threading.get_ident()
        self.faults_by_op = {}
        self.matchers = []
        for f in spec.get("faults") or []:
            if "op" in f:
                self.faults_by_op[int(f["op"])] = f
            else:
                self.matchers.append(dict(f, _seen=0))
        self.fired = []
        self.last_n = 0
        self.probes = {}
        self.dir_order = spec.get("dir_order")  # None | "sorted" | {"seed": n}
        self.torn_fds = {}
        self.child_tmp = os.path.dirname(oplog_path) or None
        self.child_seq = 0
        self.pool = None  # SimPool scheduler while a pool is running
        self.log_fd = _real["open"](oplog_path, os.O_WRONLY | os.O_CREAT | os.O_TRUNC | os.O_APPEND, 0o644)
        self.clock = None

    # ------------------------------------------------------------------ utils
    def probe(self, name, k=1):
        self.probes[name] = self.probes.get(name, 0) + k

    def log(self, rec):
        try:
            _real["write"](self.log_fd, (json.dumps(rec, separators=(",", ":")) + "\n").encode())
        except OSError:
            pass

    def resolve(self, path, dir_fd=None):
        try:
            if isinstance(path, int):
                return _real["readlink"]("/proc/self/fd/%d" % path)
            p = os.fspath(path)
            if isinstance(p, bytes):
                p = os.fsdecode(p)
            if not os.path.isabs(p):
                if dir_fd is not None:
                    base = _real["readlink"]("/proc/self/fd/%d" % dir_fd)
                else:
                    base = _real["getcwd"]()
                p = os.path.join(base, p)
            p = os.path.normpath(p) if ".." not in p.split("/") else p
            head, tail = os.path.split(p.rstrip("/") or "/")
            if tail in ("", ".", ".."):
                return _real_realpath(p)
            return os.path.join(_real_realpath(head), tail)
        except Exception as ex:  # never let logging break the run
            return "?%s:%r" % (type(ex).__name__, path)

    def eligible(self, rp):
        return self.armed and (rp == self.sandbox or rp.startswith(self.sandbox + "/"))

    def rel(self, rp):
        if rp == self.sandbox:
            return "."
        if rp.startswith(self.sandbox + "/"):
            return rp[len(self.sandbox) + 1:]
        return rp

    # --------------------------------------------------------------- the hook
    def op(self, kind, path, dir_fd=None, path2=None, dir_fd2=None, force_eligible=False):
        """Account one operation.  Returns the fault dict (for actions the caller
        must carry out itself: torn, childfail) or None.  Raises for errno
        faults; never returns for kill."""
        if os.getpid() != self.main_pid:
            # forked real pool worker: log only
            rp = self.resolve(path, dir_fd)
            self.log(["child", os.getpid(), kind, self.rel(rp)])
            return None
        pool = self.pool
        worker = None
        if pool is not None:
            worker = pool.yield_point()
        rp = self.resolve(path, dir_fd)
        rp2 = self.resolve(path2, dir_fd2) if path2 is not None else None
        elig = force_eligible and self.armed or self.eligible(rp) or (rp2 is not None and self.eligible(rp2))
        self.n += 1
        self.last_n = self.n
        idx = 0
        if elig:
            self.e += 1
            idx = self.e
        rec = [self.n, idx, kind, self.rel(rp)]
        if rp2 is not None:
            rec.append(self.rel(rp2))
        rec.append(self.phase)
        if worker is not None:
            rec.append("w%d" % worker)
        fault = None
        if elig:
            fault = self.faults_by_op.get(idx)
            if fault is None and self.matchers:
                fault = self._match(kind, self.rel(rp), self.rel(rp2) if rp2 else None)
        if fault is not None:
            rec.append({"fault": fault.get("action"), "errno": fault.get("errno")})
        self.log(rec)
        if fault is None:
            return None
        act = fault["action"]
        self.fired.append({"op": idx, "n": self.n, "kind": kind, "path": self.rel(rp), "action": act,
                           "errno": fault.get("errno"), "phase": self.phase})
        if act == "kill":
            _real["_exit"](137)
        if act == "errno":
            code = ERRNOS[fault["errno"]]
            raise OSError(code, os.strerror(code) + " (simulated)", os.fspath(path) if not isinstance(path, int) else None)
        return fault

    def failed(self, n, exc):
        """The real call behind operation n raised: it had no effect on the file system."""
        self.log(["fail", n, getattr(exc, "errno", None)])

    def call(self, real, *a, **k):
        n = self.last_n
        try:
            return real(*a, **k)
        except OSError as e:
            self.failed(n, e)
            raise

    def _match(self, kind, rel, rel2):
        import re
        for m in self.matchers:
            if m.get("kind") and m["kind"] != kind:
                continue
            if m.get("path") is not None and m["path"] != rel and m["path"] != rel2:
                continue
            if m.get("path_re") and not (re.search(m["path_re"], rel) or (rel2 and re.search(m["path_re"], rel2))):
                continue
            if m.get("phase") and m["phase"] != self.phase:
                continue
            m["_seen"] += 1
            nth = m.get("nth", 1)
            if nth == "all" or m["_seen"] == nth:
                return m
        return None

    # ------------------------------------------------------------ enumeration
    def order_entries(self, dirpath, entries, key):
        d = self.dir_order
        if d is None:
            return entries
        if d == "sorted":
            return sorted(entries, key=key)
        rp = self.resolve(dirpath)
        ent = sorted(entries, key=key)
        stream(d["seed"], "dir", self.rel(rp)).shuffle(ent)
        return ent

    # ----------------------------------------------------------------- install
    def install(self):
        S = self

        def mk_simple(name, kind):
            real = _real[name]

            def w(path, *a, dir_fd=None, **k):
                S.op(kind, path, dir_fd)
                if dir_fd is not None:
                    return S.call(real, path, *a, dir_fd=dir_fd, **k)
                return S.call(real, path, *a, **k)
            w.__name__ = name
            return w

        for name, kind in (("mkdir", "mkdir"), ("rmdir", "rmdir"), ("unlink", "unlink"),
                           ("remove", "unlink"), ("utime", "utime"), ("chmod", "chmod"),
                           ("truncate", "truncate")):
            setattr(os, name, mk_simple(name, kind))

        def mk_two(name, kind):
            real = _real[name]

            def w(src, dst, *, src_dir_fd=None, dst_dir_fd=None):
                S.op(kind, src, src_dir_fd, dst, dst_dir_fd)
                kw = {}
                if src_dir_fd is not None:
                    kw["src_dir_fd"] = src_dir_fd
                if dst_dir_fd is not None:
                    kw["dst_dir_fd"] = dst_dir_fd
                return S.call(real, src, dst, **kw)
            w.__name__ = name
            return w

        os.rename = mk_two("rename", "rename")
        os.replace = mk_two("replace", "rename")

        def symlink(src, dst, target_is_directory=False, *, dir_fd=None):
            S.op("symlink", dst, dir_fd)
            if dir_fd is not None:
                return S.call(_real["symlink"], src, dst, target_is_directory, dir_fd=dir_fd)
            return S.call(_real["symlink"], src, dst, target_is_directory)
        os.symlink = symlink

        def link(src, dst, **k):
            S.op("link", dst)
            return S.call(_real["link"], src, dst, **k)
        os.link = link

        def os_open(path, flags, mode=0o777, *, dir_fd=None):
            kind = "os.open-w" if flags & _W_FLAGS else "os.open-r"
            S.op(kind, path, dir_fd)
            if dir_fd is not None:
                return S.call(_real["open"], path, flags, mode, dir_fd=dir_fd)
            return S.call(_real["open"], path, flags, mode)
        os.open = os_open

        def scandir(path="."):
            S.op("scandir", path)
            it = _real["scandir"](path)
            if S.dir_order is None:
                return it
            with it:
                entries = list(it)
            return _ScandirIter(S.order_entries(path, entries, key=lambda e: os.fsdecode(e.name)))
        os.scandir = scandir

        def listdir(path="."):
            S.op("listdir", path)
            names = _real["listdir"](path)
            return S.order_entries(path, names, key=lambda n: os.fsdecode(n))
        os.listdir = listdir

        def sendfile(out_fd, in_fd, offset, count, *a, **k):
            S.op("sendfile", out_fd)
            keep = S.torn_fds.get(out_fd)
            if keep is not None:
                if keep > 0:
                    n = _real["sendfile"](out_fd, in_fd, offset, min(count, keep), *a, **k)
                    S.torn_fds[out_fd] = keep - n
                    if n:
                        return n
                S.probe("torn_write_fired")
                raise OSError(_errno.ENOSPC, "No space left on device (simulated torn write)")
            return _real["sendfile"](out_fd, in_fd, offset, count, *a, **k)
        os.sendfile = sendfile

        def sim_open(file, mode="r", *a, **k):
            if isinstance(file, int):
                return _real_open(file, mode, *a, **k)
            writing = any(c in mode for c in "wax+")
            fault = S.op("open-w" if writing else "open-r", file)
            f = S.call(_real_open, file, mode, *a, **k)
            if fault is not None and fault["action"] == "torn" and writing:
                keep = int(fault.get("keep", 0))
                try:
                    S.torn_fds[f.fileno()] = keep
                except Exception:
                    pass
                return TornFile(f, keep, S, os.fspath(file))
            return f
        sim_open.__name__ = "open"
        builtins.open = sim_open
        io.open = sim_open

        def popen_init(self_, args, *a, **k):
            cwd = k.get("cwd") or "."
            fault = S.op("popen", cwd, force_eligible=True)
            if fault is not None and fault["action"] == "childfail":
                S.probe("childfail_fired")
                args = ["/bin/false"]
            # Child output captured through pipes arrives in timing-dependent chunks, which perturbs
            # the parent's heap layout and with it the iteration order of id()-hashed sets.  Capture
            # into unnamed temporary files instead and hand the whole output over in one piece.
            sim = {}
            if len(a) <= 5:  # stdin/stdout/stderr given by keyword (subprocess.run, graphviz)
                for name in ("stdout", "stderr"):
                    if k.get(name) == subprocess.PIPE:
                        S.child_seq += 1
                        path = os.path.join(S.child_tmp or "/dev/shm", "fordsim-child-%d-%d-%s" % (os.getpid(), S.child_seq, name))
                        fd = _real["open"](path, os.O_RDWR | os.O_CREAT | os.O_TRUNC, 0o600)
                        _real["unlink"](path)
                        sim[name] = fd
                        k[name] = fd
            try:
                r = _real_popen_init(self_, args, *a, **k)
            except BaseException:
                for fd in sim.values():
                    _real["close"](fd)
                raise
            if sim:
                self_._fordsim_capture = sim
            return r
        subprocess.Popen.__init__ = popen_init

        real_communicate = subprocess.Popen.communicate

        def communicate(self_, input=None, timeout=None):
            sim = getattr(self_, "_fordsim_capture", None)
            if not sim:
                return real_communicate(self_, input, timeout)
            if self_.stdin is not None:
                try:
                    if input:
                        self_.stdin.write(input)
                    self_.stdin.close()
                except (BrokenPipeError, OSError, ValueError):
                    pass
            self_.wait(timeout)
            res = {}
            for name, fd in sim.items():
                os.lseek(fd, 0, 0)
                chunks = []
                size = os.fstat(fd).st_size
                data = os.read(fd, size) if size else b""
                while len(data) < size:
                    more = os.read(fd, size - len(data))
                    if not more:
                        break
                    data += more
                _real["close"](fd)
                if getattr(self_, "text_mode", False):
                    data = data.decode(getattr(self_, "encoding", None) or "utf-8", getattr(self_, "errors", None) or "strict")
                    data = data.replace("\r\n", "\n").replace("\r", "\n")
                res[name] = data
            self_._fordsim_capture = None
            return (res.get("stdout"), res.get("stderr"))
        subprocess.Popen.communicate = communicate

    def finish(self):
        try:
            _real["close"](self.log_fd)
        except OSError:
            pass


# --------------------------------------------------------------------- clock
class SimClock:
    """Seeded simulated wall clock (seam S6)."""

    def __init__(self, plan):
        self.rng = stream(plan.get("seed", 0), "clock")
        self.t = float(plan.get("start", 1_790_000_000.0))
        self.t0 = self.t
        self.reads = 0
        self.back_at = plan.get("back_at")  # read index at which the clock steps backwards
        self.max_step = float(plan.get("max_step", 90.0))
        self.advanced = 0.0
        self.back_fired = 0

    def read(self):
        self.reads += 1
        if self.back_at is not None and self.reads == self.back_at:
            self.t -= self.rng.uniform(1.0, 3600.0)
            self.back_fired += 1
        else:
            d = self.rng.uniform(0.0, self.max_step)
            self.t += d
            self.advanced += d
        return self.t

    def advance(self, s):
        self.t += s
        self.advanced += s


class SimTimeModule:
    def __init__(self, clock):
        import time as _t
        self._clock = clock
        self._t = _t

    def time(self):
        return self._clock.read()

    def __getattr__(self, name):
        return getattr(self._t, name)


def make_sim_datetime(clock):
    import datetime as _dt

    class SimDatetime(_dt.datetime):
        @classmethod
        def now(cls, tz=None):
            t = clock.read()
            return _dt.datetime.fromtimestamp(t, tz=tz or _dt.timezone.utc)

    return SimDatetime
