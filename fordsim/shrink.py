"""Parallel greedy delta debugging: keep a candidate only while the same
violation signature persists (test function re-runs the real code)."""
import concurrent.futures as cf
import itertools
import multiprocessing
import os
import time

_TEST = None


def _run(args):
    k, cand = args
    try:
        return bool(_TEST(cand, k))
    except Exception:  # noqa: BLE001 - a candidate that breaks the harness is simply not kept
        return False


def shrink(cur, candidates_fn, test_fn, budget=60.0, jobs=None, max_cands=600):
    """candidates_fn(cur) -> iterable of (desc, candidate); test_fn(candidate, slot)
    -> True iff the same violation persists (slot: a small int usable to pick a
    private scratch directory).  Returns the minimised case and the number of steps."""
    global _TEST
    jobs = jobs or int(os.environ.get("VERIF_JOBS", "16"))
    _TEST = test_fn
    t0 = time.monotonic()
    steps = 0
    ctx = multiprocessing.get_context("fork")
    with cf.ProcessPoolExecutor(max_workers=jobs, mp_context=ctx) as ex:
        progress = True
        while progress and time.monotonic() - t0 < budget:
            progress = False
            it = iter(candidates_fn(cur))
            tried = 0
            while tried < max_cands and time.monotonic() - t0 < budget:
                chunk = list(itertools.islice(it, jobs))
                if not chunk:
                    break
                tried += len(chunk)
                res = list(ex.map(_run, [(k, c[1]) for k, c in enumerate(chunk)]))
                for ok, (desc, cand) in zip(res, chunk):
                    if ok:
                        cur = cand
                        steps += 1
                        progress = True
                        break
                if progress:
                    break
    return cur, steps
