"""Cold runner: one simulated FORD execution = one fresh interpreter.

usage: python -m fordsim.run_one <spec.json> <result.json>

The spec decides everything (see DESIGN.md 2.1).  The op log goes to
spec["oplog"] as JSON lines and survives a simulated kill.
"""
import faulthandler
import json
import os
import sys
import traceback


def install_after_import(S, spec):
    """Wrap the seams that are module attributes of ford (needs ford imported)."""
    import ford
    import ford.fortran_project as fp
    import ford.graphs
    import ford.output
    import ford.external_project
    from .shim import OrderedSet, SimClock, SimTimeModule, make_sim_datetime
    from .seeds import stream

    S.order_plan = spec.get("order_plan")
    orig_faf = fp.find_all_files
    sandbox = S.sandbox

    def find_all_files(settings):
        r = orig_faf(settings)
        plan = S.order_plan
        if plan is None or type(r) not in (set, frozenset):
            # the code chose an order itself (list/tuple/sorted): pass through untouched
            if type(r) not in (set, frozenset):
                S.probe("find_all_files_ordered_by_code")
            else:
                # natural (hash) order: record it so that a finding can be replayed with an
                # explicit plan that does not depend on the sandbox's absolute path
                S.probe("find_all_files_natural")
                S.file_order = [os.path.relpath(str(p), sandbox) for p in r]
            return r
        items = sorted(r, key=str)
        mode = plan.get("mode", "sorted")
        if mode == "reverse":
            items.reverse()
        elif mode == "perm":
            stream(plan["seed"], "order").shuffle(items)
        elif mode == "explicit":
            rank = {n: i for i, n in enumerate(plan["names"])}

            def key(p):
                rel = os.path.relpath(str(p), sandbox)
                return (rank.get(rel, len(rank)), rel)
            items.sort(key=key)
        S.probe("find_all_files_permuted")
        S.file_order = [os.path.relpath(str(p), sandbox) for p in items]
        return OrderedSet(r).set_order(items)

    fp.find_all_files = find_all_files

    pool = spec.get("pool")
    if pool is not None and pool.get("sim", True):
        from .simpool import SimPool
        sp = SimPool(S, pool.get("seed", 0))
        ford.graphs.process_map = sp.process_map
        S.simpool = sp
    else:
        S.simpool = None

    clock = spec.get("clock")
    if clock is not None:
        c = SimClock(clock)
        S.clock = c
        tm = SimTimeModule(c)
        ford.time = tm
        ford.output.time = tm
        ford.datetime = make_sim_datetime(c)

    net = spec.get("net")
    if net is not None:
        from .simnet import SimNet
        sn = SimNet(net, S)
        ford.external_project.urlopen = sn.urlopen
        S.simnet = sn
    else:
        S.simnet = None

    # coarse phase markers, set from outside
    def mark(obj, name, phase):
        orig = getattr(obj, name, None)
        if orig is None:   # the code under test was refactored: a phase label is a convenience, not a requirement
            S.probe("phase_marker_missing_" + name)
            return

        def w(*a, **k):
            old = S.phase
            S.phase = phase
            try:
                return orig(*a, **k)
            finally:
                S.phase = old
        w.__name__ = getattr(orig, "__name__", name)
        w.__wrapped__ = orig
        setattr(obj, name, w)

    mark(fp.Project, "__init__", "parse")
    mark(fp.Project, "correlate", "correlate")
    mark(fp.Project, "markdown", "markdown")
    mark(ford, "get_page_tree", "pages")
    mark(ford.output.Documentation, "__init__", "render")
    mark(ford.output.Documentation, "writeout", "writeout")
    mark(ford.graphs.GraphManager, "output_graphs", "graphs")
    mark(ford.tipue_search.Tipue_Search_JSON_Generator, "print_output", "search")
    mark(ford, "dump_modules", "externalize")
    mark(ford.output.PagetreePage, "writeout", "write-static-page")


def outcome_of(ex):
    if ex is None:
        return {"kind": "ok"}
    if isinstance(ex, SystemExit):
        return {"kind": "exit", "code": ex.code if isinstance(ex.code, int) else 1,
                "msg": None if isinstance(ex.code, int) else str(ex.code)[:2000]}
    return {"kind": "exception", "cls": type(ex).__name__, "msg": str(ex)[:2000],
            "tb": traceback.format_exception(type(ex), ex, ex.__traceback__)[-6:]}


def main(argv):
    spec_path, result_path = argv[1], argv[2]
    with open(spec_path) as f:
        spec = json.load(f)
    faulthandler.enable()
    faulthandler.dump_traceback_later(spec.get("wall_limit", 120), exit=True)
    pad = [object() for _ in range(int(spec.get("heap_pad", 0)))]  # noqa: F841
    layout = [id(spec) & 0xFFFFFF, id(pad) & 0xFFFFFF]

    from .shim import Shim
    S = Shim(spec, spec["oplog"])
    S.file_order = None
    S.install()
    os.chdir(spec["cwd"])
    import ford  # noqa: E402  (after the shim, by design)
    install_after_import(S, spec)

    mode = spec.get("mode", "full")
    result = {"layout": layout, "hashseed": os.environ.get("PYTHONHASHSEED")}
    ex = None
    if mode == "full":
        sys.argv = list(spec["argv"])
        S.armed = True
        S.phase = "init"
        try:
            proj_data, proj_docs = ford.initialize()
            S.phase = "main"
            if proj_data.quiet:
                from io import StringIO
                with ford.stdout_redirector(StringIO()):
                    ford.main(proj_data, proj_docs)
            else:
                ford.main(proj_data, proj_docs)
        except BaseException as e:  # noqa: BLE001 - outcome is data
            ex = e
        S.armed = False
    else:
        from . import drivers
        try:
            result["driver"] = drivers.run(mode, spec, S)
        except BaseException as e:  # noqa: BLE001
            ex = e
    sys.stdout.flush()
    result["outcome"] = outcome_of(ex)
    result["n_ops"] = S.n
    result["n_eligible"] = S.e
    result["fired"] = S.fired
    result["probes"] = S.probes
    result["file_order"] = S.file_order
    if S.clock is not None:
        result["clock"] = {"reads": S.clock.reads, "advanced": S.clock.advanced, "back": S.clock.back_fired}
    if S.simpool is not None:
        result["pool"] = S.simpool.summary()
    if S.simnet is not None:
        result["net"] = S.simnet.requests
    S.finish()
    from .shim import _real_open
    with _real_open(result_path, "w") as f:
        json.dump(result, f)
    faulthandler.cancel_dump_traceback_later()
    sys.stdout.flush()
    sys.stderr.flush()
    os._exit(0)


if __name__ == "__main__":
    main(sys.argv)
