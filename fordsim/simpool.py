"""SimPool -- a simulated ``process_map`` (seam S4).

Tasks cross a real pickle round trip (as to a forked worker), run as real
threads that are parked at every shim operation, and exactly one thread runs at
a time: the seeded ``pool`` stream decides which parked worker proceeds.  The
one process-global FORD mutates (``ford.sourceform.namelist``) is kept per
worker and restored for the parent afterwards, as after a real fork.
"""
import hashlib
import pickle
import sys
import threading

from .seeds import stream


class _Worker:
    def __init__(self, wid):
        self.wid = wid
        self.go = threading.Event()
        self.done = False
        self.thread = None
        self.ns_items = None
        self.ns_counts = None


class SimPool:
    def __init__(self, shim, seed):
        self.shim = shim
        self.seed = seed
        self.rng = None
        self.back = threading.Event()
        self.workers = []
        self.by_thread = {}
        self.trace = hashlib.sha256()
        self.switches = 0
        self.runs = 0
        self.tasks_run = 0
        self.last = None

    # called from Shim.op in whatever thread is running
    def yield_point(self):
        w = self.by_thread.get(threading.get_ident())
        if w is None:
            return None
        w.go.clear()
        self.back.set()
        w.go.wait()
        return w.wid

    def _ns(self):
        import ford.sourceform as sf
        return sf.namelist

    def process_map(self, fn, *iterables, **kw):
        max_workers = kw.get("max_workers") or 1
        tasks = list(zip(*iterables))
        self.runs += 1
        self.rng = stream(self.seed, "pool", self.runs)
        sys.setrecursionlimit(max(sys.getrecursionlimit(), 20000))
        blobs = [pickle.dumps((fn, args), protocol=pickle.HIGHEST_PROTOCOL) for args in tasks]
        results = [None] * len(tasks)
        errors = [None] * len(tasks)
        next_task = [0]
        ns = self._ns()
        main_items, main_counts = ns._items, ns._counts
        nworkers = min(max_workers, len(tasks)) or 0
        self.workers = [_Worker(i) for i in range(nworkers)]
        self.by_thread = {}

        def body(w):
            w.go.wait()
            try:
                while True:
                    i = next_task[0]
                    if i >= len(tasks):
                        break
                    next_task[0] = i + 1
                    self.tasks_run += 1
                    try:
                        f, a = pickle.loads(blobs[i])
                        r = f(*a)
                        results[i] = pickle.loads(pickle.dumps(r))
                    except BaseException as ex:  # noqa: BLE001 - propagate as a pool would
                        if isinstance(ex, SystemExit):
                            errors[i] = RuntimeError("worker exited: %r" % (ex.code,))
                        else:
                            errors[i] = ex
            finally:
                w.done = True
                self.back.set()

        for w in self.workers:
            w.ns_items = dict(main_items)
            w.ns_counts = {k: dict(v) for k, v in main_counts.items()}
            w.thread = threading.Thread(target=body, args=(w,), name="simpool-%d" % w.wid, daemon=True)
            w.thread.start()
            self.by_thread[w.thread.ident] = w

        self.shim.pool = self
        try:
            while True:
                live = [w for w in self.workers if not w.done]
                if not live:
                    break
                w = live[self.rng.randrange(len(live))] if len(live) > 1 else live[0]
                if self.last is not w.wid:
                    self.switches += 1
                self.last = w.wid
                self.trace.update(b"%d," % w.wid)
                ns._items, ns._counts = w.ns_items, w.ns_counts
                self.back.clear()
                w.go.set()
                self.back.wait()
        finally:
            self.shim.pool = None
            ns._items, ns._counts = main_items, main_counts
            self.by_thread = {}
        for t in self.workers:
            t.thread.join(5)
        for i, e in enumerate(errors):
            if e is not None:
                raise e
        return results

    def summary(self):
        return {"runs": self.runs, "tasks": self.tasks_run, "switches": self.switches,
                "trace": self.trace.hexdigest()[:16]}
