"""Executable reference model of Fortran USE association on the abstract
module-graph model (independent of FORD's implementation).

A *table* maps kind-class -> {local name -> [origin module, origin name]}.
kind classes: procs (subroutine, function, generic interface), types, vars
(variable, parameter), absints.
"""

CLASS = {"var": "vars", "param": "vars", "type": "types", "sub": "procs", "func": "procs",
         "generic": "procs", "absint": "absints", "iface": "procs"}
CLASSES = ("procs", "types", "vars", "absints")


def empty():
    return {c: {} for c in CLASSES}


def effective_access(mod, ent):
    return ent.get("access") or mod.get("default") or "public"


def own_table(mod):
    t = empty()
    for e in mod["ents"]:
        t[CLASS[e["kind"]]][e["name"].lower()] = [mod["name"].lower(), e["name"].lower()]
    return t


def imports(uses, exports_of):
    """Union over USE statements.  ``exports_of``: module name -> export table."""
    t = empty()
    for u in uses:
        ex = exports_of.get(u["mod"].lower())
        if ex is None:
            continue  # module not in the project (mpi, ...)
        only = u.get("only")
        if only is not None:
            for local, remote in only:
                for c in CLASSES:
                    if remote.lower() in ex[c]:
                        t[c][local.lower()] = ex[c][remote.lower()]
        else:
            ren = {remote.lower(): local.lower() for local, remote in (u.get("renames") or [])}
            for c in CLASSES:
                for name, origin in ex[c].items():
                    t[c][ren.get(name, name)] = origin
    return t


def exports(mod, imp):
    """Export table of ``mod`` given its import table ``imp``."""
    t = empty()
    for e in mod["ents"]:
        if effective_access(mod, e) in ("public", "protected"):
            t[CLASS[e["kind"]]][e["name"].lower()] = [mod["name"].lower(), e["name"].lower()]
    default_private = mod.get("default") == "private"
    listed = {n.lower() for n in mod.get("pub_imports") or []}
    for c in CLASSES:
        for name, origin in imp[c].items():
            if (not default_private) or name in listed:
                t[c].setdefault(name, origin)
    return t


def merge(a, b):
    out = empty()
    for c in CLASSES:
        out[c].update(a[c])
        out[c].update(b[c])
    return out


def solve(world):
    """Returns (tables, exports): scope name -> table, for every module, program
    and external procedure of ``world`` (modules listed in dependency order)."""
    exports_of = {}
    tables = {}
    for mod in world["mods"]:
        imp = imports(mod["uses"], exports_of)
        exports_of[mod["name"].lower()] = exports(mod, imp)
        tables[mod["name"].lower()] = merge(imp, own_table(mod))
    for unit in world.get("progs", []) + world.get("extprocs", []):
        uses = list(unit["uses"]) + list((unit.get("block") or {}).get("uses") or [])
        tables[unit["name"].lower()] = merge(imports(uses, exports_of), own_table(unit))
    return tables, exports_of


def inner_scopes(world, exports_of, tables):
    """Scopes nested in modules that carry their own USE statements: module procedures
    (host association: the module's table is visible too) and interface bodies (no host
    association in Fortran; only what their own USE statements import is asserted).
    -> {"mod::ent": {"kind": "sub"|"iface", "imports": table, "table": table|None}}"""
    out = {}
    for mod in world["mods"]:
        for e in mod["ents"]:
            if e.get("uses") is None and not e.get("argtype"):
                continue
            imp = imports(e.get("uses") or [], exports_of)
            key = "%s::%s" % (mod["name"].lower(), e["name"].lower())
            out[key] = {"kind": e["kind"], "imports": imp,
                        "table": merge(tables[mod["name"].lower()], imp) if e["kind"] != "iface" else None}
    return out
