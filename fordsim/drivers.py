"""Light drivers for the cheap properties (C06, C17, C20): one cold process per
world, one forked child per variant.  Children are identical images plus an
index; their observables are canonical dumps sorted by name."""
import json
import os
import signal
import sys
import time
import traceback

from .shim import _real, _real_open


# ------------------------------------------------------------ canonical dumps
def _scope_of(obj):
    import ford.sourceform as sf
    o = obj
    seen = 0
    while o is not None and seen < 50:
        seen += 1
        par = getattr(o, "parent", None)
        if isinstance(o, (sf.FortranModule, sf.FortranProgram)) and not hasattr(o, "external_url"):
            return o.name.lower()
        if isinstance(par, sf.FortranSourceFile) or par is None:
            return (getattr(o, "name", None) or "?").lower()
        o = par
    return "?"


def origin(obj):
    if isinstance(obj, str):
        return ["<str>", obj.lower()]
    if hasattr(obj, "external_url"):
        return ["<external>", str(getattr(obj, "name", "?")).lower(), str(obj.external_url)]
    par = getattr(obj, "parent", None)
    return [_scope_of(par) if par is not None else "?", str(getattr(obj, "name", "?")).lower()]


def dump_tables(project):
    import ford.sourceform as sf
    out = {"tables": {}, "exports": {}, "refs": []}
    scopes = list(project.modules) + list(project.programs) + \
        [p for p in project.procedures if getattr(p, "parobj", None) == "sourcefile"]
    for s in scopes:
        t = {}
        for cls, attr in (("procs", "all_procs"), ("types", "all_types"), ("vars", "all_vars"),
                          ("absints", "all_absinterfaces")):
            d = getattr(s, attr, {}) or {}
            t[cls] = {k: origin(v) for k, v in sorted(d.items())}
        out["tables"][s.name.lower()] = t
        if isinstance(s, sf.FortranModule):
            e = {}
            for cls, attr in (("procs", "pub_procs"), ("types", "pub_types"), ("vars", "pub_vars"),
                              ("absints", "pub_absints")):
                d = getattr(s, attr, {}) or {}
                e[cls] = {k: origin(v) for k, v in sorted(d.items())}
            out["exports"][s.name.lower()] = e
        sname = s.name.lower()
        for v in getattr(s, "variables", []):
            proto = getattr(v, "proto", None)
            if proto and not isinstance(proto[0], str):
                out["refs"].append([sname, "vtype", v.name.lower(), origin(proto[0])])
            elif proto and getattr(v, "vartype", "") == "type":
                out["refs"].append([sname, "vtype", v.name.lower(), ["<unresolved>", str(proto[0]).lower()]])
        for t_ in getattr(s, "types", []):
            ext = getattr(t_, "extends", None)
            if ext is not None:
                out["refs"].append([sname, "extends", t_.name.lower(),
                                    origin(ext) if not isinstance(ext, str) else ["<unresolved>", ext.lower()]])
            for c in getattr(t_, "variables", []):
                proto = getattr(c, "proto", None)
                if proto and getattr(c, "vartype", "") == "type":
                    out["refs"].append([sname, "comp", t_.name.lower() + "%" + c.name.lower(),
                                        origin(proto[0]) if not isinstance(proto[0], str)
                                        else ["<unresolved>", str(proto[0]).lower()]])
        if hasattr(s, "calls") and not isinstance(s, sf.FortranModule):
            for c in s.calls:
                out["refs"].append([sname, "call", "", origin(c) if not isinstance(c, str) else ["<unresolved>", c.lower()]])
    # scopes nested in modules that may carry their own USE statements
    out["inner"] = {}
    for m in project.modules:
        inner = [(p.name, p) for p in list(getattr(m, "subroutines", [])) + list(getattr(m, "functions", []))]
        for intr in getattr(m, "interfaces", []):
            p = getattr(intr, "procedure", None)
            if p is not None and not getattr(intr, "generic", False):
                inner.append((intr.name, p))
        for nm, p in inner:
            key = "%s::%s" % (m.name.lower(), str(nm).lower())
            t = {}
            for cls, attr in (("procs", "all_procs"), ("types", "all_types"), ("vars", "all_vars"),
                              ("absints", "all_absinterfaces")):
                d = getattr(p, attr, {}) or {}
                t[cls] = {k: origin(v) for k, v in sorted(d.items())}
            out["inner"][key] = t
            for a in getattr(p, "args", []) or []:
                proto = getattr(a, "proto", None)
                if proto and getattr(a, "vartype", "") == "type":
                    out["refs"].append([key, "argtype", str(getattr(a, "name", "")).lower(),
                                        origin(proto[0]) if not isinstance(proto[0], str) else ["<unresolved>", str(proto[0]).lower()]])
    for sm in getattr(project, "submodules", []):
        t = {}
        for cls, attr in (("procs", "all_procs"), ("types", "all_types"), ("vars", "all_vars"),
                          ("absints", "all_absinterfaces")):
            d = getattr(sm, attr, {}) or {}
            t[cls] = {k: origin(v) for k, v in sorted(d.items())}
        out["inner"]["submodule::" + sm.name.lower()] = t
    out["refs"].sort()
    return out


def build_project(spec):
    import ford
    sys.argv = list(spec["argv"])
    proj_data, proj_docs = ford.initialize()
    project = ford.fortran_project.Project(proj_data)
    return proj_data, proj_docs, project


def drv_project_tables(spec, S, variant):
    proj_data, proj_docs, project = build_project(spec)
    project.correlate()
    return dump_tables(project)


DRIVERS = {"project_tables": drv_project_tables}


def register(name):
    def deco(fn):
        DRIVERS[name] = fn
        return fn
    return deco


# -------------------------------------------------------------- fork per variant
def _apply_patch(sandbox, patch):
    """patch: {relpath: str | {"b64":..} | None(delete) | {"dir": true}}.  Returns undo info."""
    import base64
    import shutil
    undo = {}
    for rel, v in sorted((patch or {}).items()):
        p = os.path.join(sandbox, rel)
        if os.path.islink(p):
            undo[rel] = ("absent", None)
        elif os.path.isdir(p) and not os.path.islink(p):
            undo[rel] = ("dir", None)
        elif os.path.exists(p):
            with _real_open(p, "rb") as f:
                undo[rel] = ("file", f.read())
        else:
            undo[rel] = ("absent", None)
        if v is None:
            if undo[rel][0] == "file":
                _real["unlink"](p)
            continue
        os.makedirs(os.path.dirname(p), exist_ok=True)
        if isinstance(v, dict) and v.get("dir"):
            if undo[rel][0] == "file":
                _real["unlink"](p)
            os.makedirs(p, exist_ok=True)
            continue
        if isinstance(v, dict) and "symlink" in v:
            if os.path.lexists(p):
                _real["unlink"](p)
            _real["symlink"](v["symlink"], p)
            continue
        data = v.encode("utf-8") if isinstance(v, str) else base64.b64decode(v["b64"])
        with _real_open(p, "wb") as f:
            f.write(data)
    return undo


def _undo_patch(sandbox, undo):
    import shutil
    for rel, (kind, data) in undo.items():
        p = os.path.join(sandbox, rel)
        if os.path.islink(p):
            _real["unlink"](p)
        elif os.path.isdir(p) and not os.path.islink(p) and kind != "dir":
            shutil.rmtree(p, ignore_errors=True)
        elif os.path.exists(p) and kind != "dir":
            _real["unlink"](p)
        if kind == "file":
            with _real_open(p, "wb") as f:
                f.write(data)


def run(mode, spec, S):
    """mode 'multi': spec['variants'] = [{driver, order_plan, dir_order, faults, fs_patch, ...}].
    Any other mode is a single driver run in this process."""
    if mode != "multi":
        S.armed = True
        return DRIVERS[mode](spec, S, {})
    from . import drivers_c17, drivers_c20  # noqa: F401  (register their drivers)
    results = []
    outdir = os.path.dirname(spec["oplog"])
    limit = float(spec.get("variant_wall_limit", 30))
    for i, var in enumerate(spec["variants"]):
        res_path = os.path.join(outdir, "v%d.json" % i)
        undo = _apply_patch(S.sandbox, var.get("fs_patch"))
        sys.stdout.flush()
        sys.stderr.flush()
        pid = os.fork()
        if pid == 0:
            code = 0
            try:
                S.main_pid = os.getpid()
                S.order_plan = var.get("order_plan", spec.get("order_plan"))
                S.dir_order = var.get("dir_order", spec.get("dir_order"))
                S.faults_by_op = {}
                S.matchers = []
                for f in var.get("faults") or []:
                    if "op" in f:
                        S.faults_by_op[int(f["op"])] = f
                    else:
                        S.matchers.append(dict(f, _seen=0))
                out_path = os.path.join(outdir, "v%d.out" % i)
                fd = _real["open"](out_path, os.O_WRONLY | os.O_CREAT | os.O_TRUNC, 0o644)
                os.dup2(fd, 1)
                os.dup2(fd, 2)
                S.armed = True
                S.phase = "driver"
                r = {"i": i}
                try:
                    r["dump"] = DRIVERS[var.get("driver", spec.get("driver"))](spec, S, var)
                    r["outcome"] = {"kind": "ok"}
                except BaseException as ex:  # noqa: BLE001
                    if isinstance(ex, SystemExit):
                        r["outcome"] = {"kind": "exit", "code": ex.code if isinstance(ex.code, int) else 1,
                                        "msg": None if isinstance(ex.code, int) else str(ex.code)[:1000]}
                    else:
                        r["outcome"] = {"kind": "exception", "cls": type(ex).__name__, "msg": str(ex)[:1000],
                                        "tb": traceback.format_exception(type(ex), ex, ex.__traceback__)[-5:]}
                S.armed = False
                sys.stdout.flush()
                sys.stderr.flush()
                r["fired"] = S.fired
                r["probes"] = S.probes
                r["file_order"] = S.file_order
                r["n_eligible"] = S.e
                with _real_open(res_path, "w") as f:
                    json.dump(r, f)
            except BaseException:  # noqa: BLE001
                code = 3
                try:
                    traceback.print_exc()
                except Exception:
                    pass
            os._exit(code)
        # parent
        t0 = time.monotonic()
        status = None
        while True:
            wpid, st = os.waitpid(pid, os.WNOHANG)
            if wpid == pid:
                status = st
                break
            if time.monotonic() - t0 > limit:
                os.kill(pid, signal.SIGKILL)
                os.waitpid(pid, 0)
                status = "timeout"
                break
            time.sleep(0.001)
        wall = time.monotonic() - t0
        _undo_patch(S.sandbox, undo)
        entry = {"i": i, "wall": wall}
        if status == "timeout":
            entry["status"] = "timeout"
        elif os.path.exists(res_path):
            with _real_open(res_path) as f:
                entry.update(json.load(f))
            entry["status"] = "ok"
        else:
            entry["status"] = "harness-error"
            entry["wait_status"] = status
        out_path = os.path.join(outdir, "v%d.out" % i)
        if os.path.exists(out_path):
            with _real_open(out_path, "rb") as f:
                entry["stdout"] = f.read().decode("utf-8", "replace")[-20000:]
        results.append(entry)
    return results
