"""Storage-style corruption of Fortran sources (C20): truncation, splice, lost
block, byte flips, undecodable bytes, unbalanced END, misplaced CONTAINS, and a
small grammar of malformed constructs.  All identifiers in the base texts carry
a prefix that the valid world never uses."""
import base64

RICH = [
    """module {p}rich
  !! A module with many constructs {p}tr1
  use iso_fortran_env, only: real64
  implicit none
  private
  public :: {p}shape, {p}area, {p}greet
  character(len=*), parameter :: {p}msg = "semi; colon ! bang & amp 'quote'"
  character(len=20) :: {p}cont = 'continued &
       &string literal'
  type, abstract :: {p}shape
    !! abstract shape {p}tr2
    real(real64) :: {p}scale = 1.0_real64
  contains
    procedure({p}area_if), deferred :: area
    procedure :: describe => {p}describe
  end type {p}shape
  abstract interface
    function {p}area_if({p}self) result({p}a)
      import :: {p}shape, real64
      class({p}shape), intent(in) :: {p}self
      real(real64) :: {p}a
    end function {p}area_if
  end interface
  interface {p}area
    module procedure {p}area_r, {p}area_i
  end interface {p}area
contains
  subroutine {p}describe({p}self)
    !! describe {p}tr3
    class({p}shape), intent(in) :: {p}self
    print *, "shape", {p}self%{p}scale ; print *, 'two; statements'
  end subroutine {p}describe
  function {p}area_r({p}x) result({p}a)
    real(real64), intent(in) :: {p}x
    real(real64) :: {p}a
    {p}a = {p}x * &
        {p}x
  end function {p}area_r
  function {p}area_i({p}i) result({p}a)
    integer, intent(in) :: {p}i
    integer :: {p}a
    select case ({p}i)
    case (1)
      {p}a = 1
    case default
      {p}a = {p}i * {p}i
    end select
  end function {p}area_i
  subroutine {p}greet({p}name)
    character(len=*), intent(in) :: {p}name
    integer :: {p}i
    do {p}i = 1, 3
      if ({p}i == 2) then
        call {p}inner({p}i)
      end if
    end do
  contains
    subroutine {p}inner({p}k)
      integer, intent(in) :: {p}k
      print *, {p}name, {p}k
    end subroutine {p}inner
  end subroutine {p}greet
end module {p}rich
""",
    """program {p}main
  !! main program {p}tr4
  implicit none
  integer :: {p}n, {p}i
  real, allocatable :: {p}arr(:)
  namelist /{p}nl/ {p}n
  interface
    subroutine {p}ext({p}a)
      real, intent(inout) :: {p}a(:)
    end subroutine {p}ext
  end interface
  {p}n = 4
  allocate({p}arr({p}n))
  {p}arr = [(real({p}i), {p}i = 1, {p}n)]
  call {p}ext({p}arr)
  associate ({p}s => sum({p}arr))
    print '({p}a, f8.3)', "sum = ", {p}s
  end associate
  block
    integer :: {p}tmp
    {p}tmp = {p}helper(2)
  end block
contains
  integer function {p}helper({p}x)
    integer, intent(in) :: {p}x
    {p}helper = {p}x + 1
  end function {p}helper
end program {p}main

subroutine {p}ext({p}a)
  !! external {p}tr5
  real, intent(inout) :: {p}a(:)
  {p}a = {p}a * 2.0
end subroutine {p}ext
""",
    """module {p}types
  !! {p}tr6
  implicit none
  type :: {p}base
    integer :: {p}id
  end type {p}base
  type, extends({p}base) :: {p}child
    character(len=:), allocatable :: {p}label
  contains
    final :: {p}cleanup
    generic :: assignment(=) => {p}assign
    procedure :: {p}assign
  end type {p}child
  enum, bind(c)
    enumerator :: {p}red = 1, {p}green
  end enum
  interface operator(.{p}op.)
    module procedure {p}opfun
  end interface
contains
  subroutine {p}cleanup({p}self)
    type({p}child), intent(inout) :: {p}self
  end subroutine {p}cleanup
  subroutine {p}assign({p}lhs, {p}rhs)
    class({p}child), intent(out) :: {p}lhs
    class({p}child), intent(in) :: {p}rhs
    {p}lhs%{p}id = {p}rhs%{p}id
  end subroutine {p}assign
  logical function {p}opfun({p}a, {p}b)
    type({p}base), intent(in) :: {p}a, {p}b
    {p}opfun = {p}a%{p}id == {p}b%{p}id
  end function {p}opfun
end module {p}types

submodule ({p}types) {p}sub
contains
end submodule {p}sub
""",
]

MALFORMED = [
    "program {p}foo\n contains\n contains\n",
    "program {p}foo\n interface {p}bar\n contains\n",
    "end\n",
    "program {p}foo\n module procedure {p}bar\n",
    "program {p}foo\n module {p}bar\n",
    "program {p}foo\n submodule ({p}foo) {p}bar \n end program {p}foo\n",
    "program {p}foo\n program {p}bar\n",
    "program {p}foo\n end program {p}foo\n program {p}bar \n end program {p}bar\n",
    "program {p}foo\n subroutine {p}bar \n end subroutine \n end program\n",
    "program {p}foo\n integer function {p}bar() \n end function {p}bar\n end program {p}foo\n",
    "module {p}m\n type :: {p}t\n contains\n contains\n end type\nend module\n",
    "module {p}m\n interface\n interface\n end interface\nend module {p}m\n",
    "subroutine {p}s(\n",
    "module {p}m\n integer :: {p}x(\n end module {p}m\n",
    "module {p}m\n character(len=10) :: c = 'unterminated\n end module {p}m\n",
    "module {p}m\n use\n end module {p}m\n",
    "function\n",
    "module {p}m\n type, extends( :: {p}t\n end type\n end module {p}m\n",
    "end module {p}nothing\nend program\nend\nend\n",
    "module {p}m\ncontains\ncontains\n subroutine {p}s\n end subroutine\nend module {p}m\n",
    "block data\nblock data\nend block data\n",
    "module {p}m\n enum, bind(c)\n end module {p}m\n",
    "this is not fortran at all; just prose & symbols ! with ' quotes \" everywhere\n= => :: (((\n",
    "module {p}m\n integer, dimension(:, :: {p}a\n real :: {p}b = [1, 2\nend module {p}m\n",
    "submodule ({p}nowhere:{p}nothing) {p}sm\nend submodule\n",
    "module {p}m\n include '{p}missing.inc'\nend module {p}m\n",
    "interface\nend interface\ncontains\n",
    "module {p}m\n type {p}t\n  procedure :: {p}x\n end type\nend module\n",
]


def base_texts(prefix):
    return [t.replace("{p}", prefix) for t in RICH]


def _b64(b):
    return {"b64": base64.b64encode(b).decode()}


def corruptions(rng, texts, prefix, n):
    """Yield n (kind, content) pairs; content is str or {"b64":...} or {"dir": True}."""
    out = []
    kinds = ["trunc_stmt", "trunc_stmt", "trunc_byte", "splice", "lost_block", "byteflip", "undecodable",
             "empty", "whitespace", "extra_end", "missing_end", "dup_contains", "misplaced_contains",
             "malformed", "malformed", "self_include", "directory", "binary", "long_line", "crlf_mix", "ends_in_predoc",
             "ends_in_predoc", "bad_namelist", "bad_namelist", "semicolon_tail"]
    for _ in range(n):
        k = rng.choice(kinds)
        t = rng.choice(texts)
        lines = t.split("\n")
        if k == "trunc_stmt":
            cut = rng.randrange(1, len(lines))
            out.append((k, "\n".join(lines[:cut]) + "\n"))
        elif k == "trunc_byte":
            cut = rng.randrange(1, len(t))
            out.append((k, t[:cut]))
        elif k == "splice":
            t2 = rng.choice(texts)
            l2 = t2.split("\n")
            out.append((k, "\n".join(lines[: rng.randrange(1, len(lines))] + l2[rng.randrange(0, len(l2)):]) + "\n"))
        elif k == "lost_block":
            a = rng.randrange(0, len(lines) - 1)
            b = min(len(lines), a + rng.randrange(1, 12))
            out.append((k, "\n".join(lines[:a] + lines[b:]) + "\n"))
        elif k == "byteflip":
            b = bytearray(t.encode())
            for _ in range(rng.randrange(1, 6)):
                i = rng.randrange(len(b))
                b[i] = b[i] ^ (1 << rng.randrange(7))
            try:
                out.append((k, bytes(b).decode("utf-8")))
            except UnicodeDecodeError:
                out.append((k, _b64(bytes(b))))
        elif k == "undecodable":
            b = bytearray(t.encode())
            for _ in range(rng.randrange(1, 4)):
                i = rng.randrange(len(b))
                b[i:i + 1] = bytes([rng.choice([0xFF, 0xFE, 0xC3, 0x80, 0xA0])])
            out.append((k, _b64(bytes(b))))
        elif k == "ends_in_predoc":
            # cut right after a preceding-doc comment (`!>` / `!|`): the entity it documents never comes
            cut = rng.randrange(1, len(lines))
            mark = rng.choice(["!>", "!|", "  !> ", "!>"])
            out.append((k, "\n".join(lines[:cut]) + "\n" + mark + " documentation of something that was cut off\n" + rng.choice(["", "\n", "\n\n"])))
        elif k == "bad_namelist":
            # a NAMELIST statement that starts right and ends wrong, with long names
            a = prefix + "first_namelist_variable_with_a_long_name"
            b = prefix + "second_namelist_variable_also_long"
            bad = rng.choice(["namelist /%sg/ %s, %s = 1" % (prefix, a, b), "namelist /%sg/ %s,, %s" % (prefix, a, b),
                              "namelist /%sg/ %s, %s /%sh/" % (prefix, a, b, prefix), "namelist /%sg/ %s %s )" % (prefix, a, b)])
            i = rng.randrange(1, len(lines))
            out.append((k, "\n".join(lines[:i] + ["  integer :: %s, %s" % (a, b), "  " + bad] + lines[i:]) + "\n"))
        elif k == "semicolon_tail":
            # the last END statements repeated on one `;`-separated line: the first is a surplus END, the second
            # is still queued in the reader when the file is rejected
            out.append((k, t.rstrip("\n") + "\nend subroutine %stail; end module %stail\n" % (prefix, prefix)))
        elif k == "empty":
            out.append((k, ""))
        elif k == "whitespace":
            out.append((k, " \n\t\n   \n"))
        elif k == "extra_end":
            i = rng.randrange(0, len(lines))
            out.append((k, "\n".join(lines[:i] + [rng.choice(["end", "end subroutine", "end module", "end type", "end interface", "end function x"])] + lines[i:]) + "\n"))
        elif k == "missing_end":
            idx = [i for i, l in enumerate(lines) if l.strip().lower().startswith("end")]
            if idx:
                i = rng.choice(idx)
                out.append((k, "\n".join(lines[:i] + lines[i + 1:]) + "\n"))
            else:
                out.append((k, t))
        elif k == "dup_contains":
            idx = [i for i, l in enumerate(lines) if l.strip().lower() == "contains"]
            i = rng.choice(idx) if idx else rng.randrange(len(lines))
            out.append((k, "\n".join(lines[:i] + ["contains"] + lines[i:]) + "\n"))
        elif k == "misplaced_contains":
            i = rng.randrange(0, len(lines))
            out.append((k, "\n".join(lines[:i] + ["contains"] + lines[i:]) + "\n"))
        elif k == "malformed":
            out.append((k, rng.choice(MALFORMED).replace("{p}", prefix)))
        elif k == "self_include":
            out.append((k, "module %sinc\n include '__SELF__'\nend module %sinc\n" % (prefix, prefix)))
        elif k == "directory":
            out.append((k, {"dir": True}))
        elif k == "binary":
            out.append((k, _b64(bytes(rng.randrange(256) for _ in range(rng.randrange(1, 400))))))
        elif k == "long_line":
            out.append((k, "module %sll\n integer :: %s\nend module %sll\n" % (prefix, ", ".join("%sv%d" % (prefix, i) for i in range(150)), prefix)))
        elif k == "crlf_mix":
            out.append((k, t.replace("\n", "\r\n", 7)))
    return out
