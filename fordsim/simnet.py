"""SimNet -- the simulated HTTP peer behind ``ford.external_project.urlopen``
(seam S8).  URL -> bytes of the peer project's *published* tree, with the fault
menu of DESIGN.md 2.6, raising exactly what urllib/http.client raise for the
same event."""
import http.client
import io
import os
import socket
from urllib.error import HTTPError, URLError

FAULTS = [
    "refused", "dns", "timeout", "http404", "http500", "reset_midbody", "incomplete_read",
    "truncated", "html200", "non_utf8", "empty",
    "shape_list_top", "shape_empty_obj", "shape_null", "shape_list_of_str", "shape_no_url",
    "shape_no_name", "shape_no_obj", "shape_bad_kind", "shape_wrong_types", "shape_modules_not_list",
]

SHAPES = {
    "shape_list_top": b"[]",
    "shape_empty_obj": b"{}",
    "shape_null": b"null",
    "shape_list_of_str": b'["m1", "m2"]',
    "shape_no_url": b'[{"name": "m", "obj": "module"}]',
    "shape_no_name": b'[{"external_url": "./module/m.html", "obj": "module"}]',
    "shape_no_obj": b'[{"name": "m", "external_url": "./module/m.html"}]',
    "shape_bad_kind": b'[{"name": "m", "external_url": "./module/m.html", "obj": "gizmo"}]',
    "shape_wrong_types": b'[{"name": 3, "external_url": 7, "obj": ["module"], "pub_procs": "x"}]',
    "shape_modules_not_list": b'{"ford-metadata": {"version": "0"}, "modules": 17}',
}


class _Resp:
    def __init__(self, body, fault=None):
        self._body = body
        self._fault = fault
        self.status = 200

    def read(self, *a):
        if self._fault == "reset_midbody":
            raise ConnectionResetError(104, "Connection reset by peer")
        if self._fault == "incomplete_read":
            raise http.client.IncompleteRead(self._body[: len(self._body) // 2], len(self._body) - len(self._body) // 2)
        return self._body

    def __enter__(self):
        return self

    def __exit__(self, *a):
        return False

    def close(self):
        pass


class SimNet:
    def __init__(self, plan, shim):
        self.plan = plan or {}
        self.shim = shim
        self.requests = []

    def urlopen(self, url, *a, **k):
        if not isinstance(url, str):
            url = url.full_url
        fault = self.plan.get("fault")
        kind = fault and fault.get("kind")
        self.requests.append([url, kind])
        if kind:
            self.shim.probe("net_fault_" + kind)
        if kind == "refused":
            raise URLError(ConnectionRefusedError(111, "Connection refused"))
        if kind == "dns":
            raise URLError(socket.gaierror(-2, "Name or service not known"))
        if kind == "timeout":
            if self.shim.clock is not None:
                self.shim.clock.advance(127.0)
            raise URLError(TimeoutError(110, "Connection timed out"))
        if kind == "http404":
            raise HTTPError(url, 404, "Not Found", {}, io.BytesIO(b"not found"))
        if kind == "http500":
            raise HTTPError(url, 500, "Internal Server Error", {}, io.BytesIO(b"oops"))
        body = None
        for route in self.plan.get("routes", []):
            if url.startswith(route["prefix"]):
                rel = url[len(route["prefix"]):]
                path = os.path.join(route["dir"], rel)
                try:
                    with io.open(path, "rb") as f:
                        body = f.read()
                except OSError:
                    raise HTTPError(url, 404, "Not Found", {}, io.BytesIO(b"not found"))
                break
        if body is None:
            raise URLError(socket.gaierror(-2, "Name or service not known"))
        if kind in ("reset_midbody", "incomplete_read"):
            return _Resp(body, kind)
        if kind == "truncated":
            keep = fault.get("keep", len(body) // 2)
            return _Resp(body[:keep])
        if kind == "html200":
            return _Resp(b"<!DOCTYPE html><html><head><title>Login</title></head><body>captive portal</body></html>")
        if kind == "non_utf8":
            return _Resp(b"\xff\xfe" + body[:40] + b"\xc3\x28\xa0\xa1")
        if kind == "empty":
            return _Resp(b"")
        if kind in SHAPES:
            return _Resp(SHAPES[kind])
        return _Resp(body)
