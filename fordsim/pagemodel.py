"""Abstract page-tree worlds (C17): generator, renderer, title-loss faults and
the reference model of what FORD's static page tree must look like."""
import re

WORDS = ["abc", "bcd", "cde", "def", "efg", "fgh", "ghi", "hij", "ijk", "jkl", "klm", "lmn", "mno", "nop",
         "opq", "pqr", "qrs", "rst", "stu", "tuv"]


def gen_dir(rng, depth, max_depth, counter, force_index=False):
    """dir = {index: page|None, pages: {stem: page}, files: [names], hidden: [names], dirs: {name: dir},
    assets: [names of copy_subdir dirs]}"""
    names = WORDS[:]
    rng.shuffle(names)
    d = {"index": None, "pages": {}, "files": [], "hidden": [], "dirs": {}, "assets": []}
    r = rng.random()
    if force_index or r < 0.8:
        d["index"] = gen_page(rng, counter, titled=force_index or rng.random() < 0.88)
    npages = rng.randint(0, 4)
    for _ in range(npages):
        stem = names.pop()
        if rng.random() < 0.08:
            stem = stem + " " + rng.choice(["notes", "two words", "x y"])   # a blank in the file name
        elif rng.random() < 0.05:
            stem = stem + "_Mixed-Case9"
        if rng.random() < 0.12:
            # a dotted page name (release notes "abc.v2.md"), possibly next to "abc.md"
            base = rng.choice(list(d["pages"]) + [stem]).split(".")[0]
            stem = "%s.v%d" % (base, rng.randint(1, 3))
            if stem in d["pages"]:
                continue
        d["pages"][stem] = gen_page(rng, counter, titled=rng.random() < 0.85)
    for _ in range(rng.randint(0, 2)):
        d["files"].append(names.pop() + rng.choice([".txt", ".png", ".csv"]))
    if rng.random() < 0.3:
        d["hidden"].append("." + names.pop())
    if rng.random() < 0.3:
        d["hidden"].append(names.pop() + ".md~")
    if depth < max_depth:
        for _ in range(rng.randint(0, 2 if depth else 3)):
            dn = names.pop()
            if rng.random() < 0.1:
                dn = dn + rng.choice([".md", ".v2", " dir"])   # a directory named like a page file, with a dot, with a blank
            d["dirs"][dn] = gen_dir(rng, depth + 1, max_depth, counter)
    if rng.random() < 0.3:
        d["assets"].append("assets")
    if rng.random() < 0.2:
        d["assets"].append("figs")
    if d["assets"] and d["index"] is not None and depth > 0 and rng.random() < 0.3:
        # documented: an empty copy_subdir in a local index.md overrides the project-wide list with nothing
        d["index"]["copy_subdir_empty"] = True
    # ordered_subpage on the index: valid, partial; (entries naming missing files are a separate option)
    if d["index"] is not None:
        entries = [p + ".md" for p in d["pages"]] + list(d["dirs"])
        r = rng.random()
        if entries and r < 0.5:
            k = rng.randint(1, len(entries))
            sel = rng.sample(entries, k)
            if rng.random() < 0.2:
                sel.append(sel[0])  # duplicate entry
            if rng.random() < 0.15:
                sel.insert(rng.randrange(len(sel) + 1), "index.md")
            d["index"]["ordered_subpage"] = sel
    return d


ACCENT = False
ACCENT_LATIN1_ONLY = False


def gen_page(rng, counter, titled=True):
    counter[0] += 1
    n = counter[0]
    title = "Title %d" % n
    if ACCENT and rng.random() < 0.6:
        title = "Titre \u00e9t\u00e9 %d" % n   # non-ASCII text for worlds with a non-UTF-8 `encoding`
    return {"title": title if titled else None, "n": n, "indent": rng.choice(["", "", "", "", "    ", "\t", "      "]),
            "author": "auth%d" % n if rng.random() < 0.3 else None, "torn": None, "links": []}


def gen_tree(rng, max_depth=3, accent=False):
    global ACCENT
    counter = [0]
    ACCENT = accent
    try:
        top = gen_dir(rng, 0, max_depth, counter, force_index=rng.random() < 0.93)
    finally:
        ACCENT = False
    return top


def walk(d, prefix=""):
    """yield (dirpath, dir)"""
    yield prefix, d
    for name in sorted(d["dirs"]):
        for x in walk(d["dirs"][name], prefix + name + "/"):
            yield x


def all_pages(top):
    """[(relpath of .md, page dict, is_index)]"""
    out = []
    for dp, d in walk(top):
        if d["index"] is not None:
            out.append((dp + "index.md", d["index"], True))
        for stem in sorted(d["pages"]):
            out.append((dp + stem + ".md", d["pages"][stem], False))
    return out


def add_links(rng, top):
    """Give titled pages links to other pages / media / url through aliases and relative paths."""
    model = build_model(top)
    if model is None:
        return
    targets = sorted(flatten(model))
    # a few popular targets: the same link then appears on several pages, at the same and at
    # different depths, in different directories
    popular = rng.sample(targets, min(2, len(targets)))
    for rel, page, is_index in all_pages(top):
        if page["title"] is None or not targets:
            continue
        for _ in range(rng.randint(1, 4)):
            kind = rng.choice(["page_alias", "page_alias", "page_alias", "relative", "media", "url", "html_block"])
            tgt = rng.choice(popular) if rng.random() < 0.7 else rng.choice(targets)
            page["links"].append([kind, tgt])


def page_text(rel, page):
    if page.get("torn_text") is not None:
        return page["torn_text"]
    L = []
    if page["title"] is not None:
        L.append("title: %s" % page["title"])
    if page.get("author"):
        L.append("author: %s" % page["author"])
    if page.get("ordered_subpage"):
        L.append("ordered_subpage: %s" % page["ordered_subpage"][0])
        for x in page["ordered_subpage"][1:]:
            L.append("    %s" % x)
    if page.get("copy_subdir"):
        L.append("copy_subdir: %s" % page["copy_subdir"][0])
    if page.get("copy_subdir_empty") and page["title"] is not None:
        L.append("copy_subdir:")
    if not L:
        L.append("")  # no metadata at all: body starts after a blank line
    if page["n"] % 11 == 5 and not page.get("links"):
        ind = page.get("indent") or ""
        return "\n".join((ind + l if l else l) for l in L) + "\n"   # metadata only, no body at all
    L.append("")
    L.append("Body of page %d pgtracer%dq%s." % (page["n"], page["n"], " caf\u00e9 \u2192 na\u00efve" if page["n"] % 3 == 0 and not ACCENT_LATIN1_ONLY else ""))
    L.append("")
    depth = rel.count("/")
    for kind, tgt in page.get("links", []):
        if kind == "page_alias":
            L.append("[to %s](|page|/%s)" % (tgt, tgt))
        elif kind == "relative":
            L.append("[rel %s](%s%s)" % (tgt, "../" * depth, tgt))
        elif kind == "html_block":
            # an alias inside a block-level raw HTML element
            L.append('<div class="note"><a href="|page|/%s">to %s</a></div>' % (tgt, tgt))
        elif kind == "media":
            L.append("![pic](|media|/pic.png)")
        else:
            L.append("[home](|url|/index.html)")
        L.append("")
    ind = page.get("indent") or ""
    if ind:
        # the whole file uniformly indented (FORD dedents a page file before reading its metadata)
        L = [(ind + l if l else l) for l in L]
    return "\n".join(L) + "\n"


def render(top, base="pages/"):
    files = {}
    for dp, d in walk(top):
        if d["index"] is not None:
            files[base + dp + "index.md"] = page_text(dp + "index.md", d["index"])
        for stem, p in d["pages"].items():
            files[base + dp + stem + ".md"] = page_text(dp + stem + ".md", p)
        for f in d["files"]:
            files[base + dp + f] = "content of %s%s\n" % (dp, f)
        for h in d["hidden"]:
            files[base + dp + h] = "title: hidden %s\n\nhidden\n" % h
        for a in d["assets"]:
            files[base + dp + a + "/img.png"] = "png in %s%s\n" % (dp, a)
            files[base + dp + a + "/deep/data.txt"] = "deep data\n"
        if not d["pages"] and not d["files"] and d["index"] is None and not d["dirs"] and not d["hidden"] and not d["assets"]:
            files[base + dp.rstrip("/")] = {"dir": True}
    return files


# ---------------------------------------------------------------- torn pages
TEAR_KINDS = ["emptied", "cut_in_key", "cut_before_header", "key_damaged", "leading_blank"]


def tear(page, rel, kind):
    """Title-loss faults only: the write of the page was cut before/inside its metadata header."""
    text = page_text(rel, dict(page, torn_text=None))
    if kind == "emptied":
        t = ""
    elif kind == "cut_in_key":
        t = text[:3]  # "tit"
    elif kind == "cut_before_header":
        t = "\n"
    elif kind == "key_damaged":
        t = text.replace("title:", "t\x7ftle:", 1)
    elif kind == "leading_blank":
        t = "\n" + text  # metadata must start on the first line
    else:
        raise ValueError(kind)
    page["torn"] = kind
    page["torn_text"] = t


def has_title(page):
    return page["title"] is not None and not page.get("torn")


# ------------------------------------------------------------ reference model
def build_model(d, path=""):
    """-> node = {path, title, subpages: [nodes], files: [names]} or None"""
    if d["index"] is None or not has_title(d["index"]):
        return None
    node = {"path": path + "index.html", "title": d["index"]["title"], "subpages": [], "files": []}
    listing = sorted([s + ".md" for s in d["pages"]] + list(d["files"]) + list(d["hidden"]) + list(d["dirs"]) + list(d["assets"]))
    ordered = [x for x in (d["index"].get("ordered_subpage") or []) if x != "index.md"]
    merged = []
    for x in ordered + listing:
        if x not in merged:
            merged.append(x)
    for name in merged:
        if name.startswith(".") or name.endswith("~"):
            continue
        if name in d["dirs"]:
            sub = build_model(d["dirs"][name], path + name + "/")
            if sub is not None:
                node["subpages"].append(sub)
        elif name in d["assets"]:
            continue  # a directory without index.md is not a node
        elif name.endswith(".md"):
            p = d["pages"].get(name[:-3])
            if p is not None and has_title(p):
                node["subpages"].append({"path": path + name[:-3] + ".html", "title": p["title"], "subpages": [], "files": []})
        else:
            node["files"].append(name)
    return node


def flatten(node):
    out = [node["path"]]
    for s in node["subpages"]:
        out.extend(flatten(s))
    return out


def expected_warnings(d, path="", reachable=True):
    """relative paths of .md files FORD must report (no title) -- only those it actually visits"""
    out = []
    if not reachable:
        return out
    if d["index"] is None:
        return out
    if not has_title(d["index"]):
        out.append(path + "index.md")
        return out
    for stem, p in d["pages"].items():
        if not has_title(p):
            out.append(path + stem + ".md")
    for name, sub in d["dirs"].items():
        out.extend(expected_warnings(sub, path + name + "/"))
    return out
