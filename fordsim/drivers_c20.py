"""C20 driver: parse + correlate (+ markdown) a project that may contain damaged
files, under a deterministic step budget, and dump the canonical tree of every
file FORD accepted."""
import json
import os
import sys

from .drivers import register, origin


class StepBudgetExceeded(BaseException):
    pass


CHILD_LISTS = ["modules", "submodules", "programs", "blockdata", "functions", "subroutines", "interfaces",
               "absinterfaces", "types", "variables", "boundprocs", "modprocedures", "modfunctions",
               "modsubroutines", "common", "namelists", "enums", "args", "finalprocs", "constructor"]


def _s(x):
    if x is None or isinstance(x, (int, float, bool)):
        return x
    if isinstance(x, str):
        return x
    if isinstance(x, (list, tuple)):
        return [_s(i) for i in x]
    if hasattr(x, "name") and hasattr(x, "obj"):
        return origin(x)
    return str(type(x).__name__)


def dump_entity(e, seen, depth=0):
    if id(e) in seen or depth > 12:
        return {"ref": origin(e)}
    seen.add(id(e))
    d = {"cls": type(e).__name__, "name": getattr(e, "name", None)}
    for a in ("obj", "permission", "vartype", "kind", "strlen", "dimension", "intent", "optional", "parameter",
              "initial", "proctype", "generic", "abstract", "bindC", "deferred", "module", "mp", "visible"):
        if hasattr(e, a):
            v = getattr(e, a)
            d[a] = _s(v)
    if hasattr(e, "attribs"):
        d["attribs"] = sorted(str(x) for x in (e.attribs or []))
    doc = getattr(e, "doc", None)
    if doc is None:
        doc = getattr(e, "doc_list", None)
    d["doc"] = doc if isinstance(doc, str) else [str(x) for x in (doc or [])]
    meta = getattr(e, "meta", None)
    if meta is not None:
        d["meta"] = {k: _s(v) for k, v in sorted(vars(meta).items()) if v not in (None, [], {}, False)}
    try:
        d["ident"] = e.ident
    except Exception:  # noqa: BLE001
        d["ident"] = None
    try:
        d["url"] = e.get_url()
    except Exception:  # noqa: BLE001
        d["url"] = None
    proto = getattr(e, "proto", None)
    if proto:
        d["proto"] = _s(proto[0] if isinstance(proto, (list, tuple)) else proto)
    ext = getattr(e, "extends", None)
    if ext is not None:
        d["extends"] = _s(ext)
    if hasattr(e, "calls"):
        d["calls"] = sorted((_s(c) if isinstance(c, str) else origin(c) for c in (e.calls or [])), key=lambda x: json.dumps(x))
    if hasattr(e, "uses"):
        d["uses"] = sorted(str(getattr(u, "name", u)).lower() for u in (e.uses or []))
    for a in ("retvar", "procedure", "prototype"):
        v = getattr(e, a, None)
        if v is not None and not isinstance(v, str) and hasattr(v, "name"):
            d[a] = dump_entity(v, seen, depth + 1)
    for lst in CHILD_LISTS:
        v = getattr(e, lst, None)
        if isinstance(v, (list, tuple)) and v:
            d[lst] = [dump_entity(c, seen, depth + 1) if hasattr(c, "name") and not isinstance(c, str) else _s(c)
                      for c in v]
    return d


_CODES = []


def _ford_code_objects():
    if _CODES:
        return _CODES
    import types
    import ford.reader
    import ford.sourceform
    import ford.fortran_project
    import ford.fixed2free2
    import ford.utils
    seen = set()

    def add(code):
        if id(code) in seen:
            return
        seen.add(id(code))
        _CODES.append(code)
        for c in code.co_consts:
            if isinstance(c, types.CodeType):
                add(c)

    for mod in (ford.reader, ford.sourceform, ford.fortran_project, ford.fixed2free2, ford.utils):
        for obj in vars(mod).values():
            if isinstance(obj, types.FunctionType) and obj.__module__ == mod.__name__:
                add(obj.__code__)
            elif isinstance(obj, type) and obj.__module__ == mod.__name__:
                for m in vars(obj).values():
                    f = getattr(m, "__func__", m)
                    if isinstance(f, property):
                        for g in (f.fget, f.fset, f.fdel):
                            if g is not None:
                                add(g.__code__)
                    elif isinstance(f, types.FunctionType):
                        add(f.__code__)
    return _CODES


def touch_idents_in_page_order(project):
    """Documentation() creates pages -- and so assigns NameSelector numbers -- in this order."""
    for lst in ("types", "absinterfaces", "procedures", "submodprocedures", "modules", "submodules",
                "programs", "blockdata", "namelists"):
        for item in getattr(project, lst, []):
            item.ident
    for f in project.allfiles:
        f.ident


@register("c20_project")
def drv_c20(spec, S, variant):
    import ford
    budget = variant.get("step_budget")
    steps = [0]
    mon = getattr(sys, "monitoring", None)
    tool = None
    if mon is not None and budget is not None or variant.get("count_steps"):
        tool = mon.PROFILER_ID
        try:
            mon.use_tool_id(tool, "fordsim-steps")
        except ValueError:
            pass

        def on_line(code, line):
            steps[0] += 1
            if budget is not None and steps[0] > budget:
                raise StepBudgetExceeded("step budget %d exceeded at %s:%d" % (budget, code.co_filename, line))
        mon.register_callback(tool, mon.events.LINE, on_line)
        # count line events in FORD's own reader/parser/project code only (that is where a
        # non-terminating loop would spin); counting every line of markdown/pygments is 15x slower
        for code in _ford_code_objects():
            mon.set_local_events(tool, code, mon.events.LINE)
    sandbox = S.sandbox
    if variant.get("rlimit_nofile"):
        import resource
        soft, hard = resource.getrlimit(resource.RLIMIT_NOFILE)
        resource.setrlimit(resource.RLIMIT_NOFILE, (int(variant["rlimit_nofile"]), hard))
    try:
        sys.argv = list(spec["argv"])
        proj_data, proj_docs = ford.initialize()
        project = ford.fortran_project.Project(proj_data)
        accepted = sorted(os.path.relpath(str(f.path), sandbox) for f in project.allfiles)
        stage = "parse"
        crash = None
        try:
            project.correlate()
            stage = "correlate"
            if variant.get("markdown", True):
                from ford._markdown import MetaMarkdown
                import copy
                import pathlib
                aliases = copy.copy(proj_data.alias)
                md = MetaMarkdown(proj_data.md_base_dir, base_url=proj_data.project_url,
                                  extensions=proj_data.md_extensions, aliases=aliases, project=project)
                project.markdown(md)
                stage = "markdown"
            touch_idents_in_page_order(project)
        except StepBudgetExceeded:
            raise
        except Exception as ex:  # noqa: BLE001 - whether the whole run dies is part of the observation
            import traceback
            crash = {"stage_reached": stage, "cls": type(ex).__name__, "msg": str(ex)[:500],
                     "tb": traceback.format_exception(type(ex), ex, ex.__traceback__)[-4:]}
    finally:
        if tool is not None:
            for code in _ford_code_objects():
                mon.set_local_events(tool, code, 0)
        if variant.get("rlimit_nofile"):
            # give the harness its descriptors back before it writes the result
            resource.setrlimit(resource.RLIMIT_NOFILE, (soft, hard))
    out = {"accepted": accepted, "steps": steps[0], "crash": crash, "files": {}, "lists": {}}
    if crash is None:
        only = set(variant.get("dump_files") or [])
        for f in project.allfiles:
            rel = os.path.relpath(str(f.path), sandbox)
            if only and rel not in only:
                continue
            out["files"][rel] = dump_entity(f, set())
        for lst in ("modules", "submodules", "programs", "procedures", "types", "absinterfaces", "blockdata",
                    "namelists", "submodprocedures", "extra_files"):
            items = []
            for e in getattr(project, lst, []):
                fn = getattr(e, "filename", None) or getattr(e, "path", None)
                rel = os.path.relpath(str(fn), sandbox) if fn else None
                if only and rel not in only:
                    continue
                items.append([str(getattr(e, "name", "")).lower(), getattr(e, "ident", None), rel])
            out["lists"][lst] = items
    return out
