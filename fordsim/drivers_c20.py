"""C20 driver (registered lazily)."""
