"""C17 driver: the real get_page_tree() on the sandbox's page directory."""
import os
import sys

from .drivers import register


def dump_node(node):
    return {"path": str(node.path), "title": node.title,
            "subpages": [dump_node(s) for s in node.subpages],
            "files": [str(f) for f in node.files]}


@register("c17_pagetree")
def drv_c17(spec, S, variant):
    import copy
    import pathlib
    import ford
    from ford._markdown import MetaMarkdown
    from ford.pagetree import get_page_tree
    sys.argv = list(spec["argv"])
    proj_data, proj_docs = ford.initialize()
    project = ford.fortran_project.Project(proj_data)
    project.correlate()
    aliases = copy.copy(proj_data.alias)
    url_path = pathlib.Path(proj_data.project_url)
    aliases.update({"url": str(url_path), "media": str(url_path / "media"), "page": str(url_path / "page")})
    md = MetaMarkdown(proj_data.md_base_dir, base_url=proj_data.project_url, extensions=proj_data.md_extensions,
                      aliases=aliases, project=project)
    tree = get_page_tree(proj_data.page_dir, proj_data.copy_subdir, proj_data.output_dir, md,
                         encoding=proj_data.encoding)
    return {"tree": dump_node(tree) if tree is not None else None}
