"""C17 driver (registered lazily)."""
