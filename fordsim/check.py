"""Shared check plumbing: CLI, evidence, known findings, violation reports."""
import argparse
import json
import os
import sys
import time

VERIF = os.path.dirname(os.path.dirname(os.path.abspath(__file__)))
KNOWN_PATH = os.path.join(VERIF, "known_findings.json")

COMPONENTS = {
    "real": ["ford/* (working tree of /repo via editable install)", "jinja2", "markdown", "pygments", "bs4",
             "toposort", "graphviz-python", "dot binary", "pickle", "tmpfs under /dev/shm", "shutil/pathlib/os below the shim"],
    "simulated": ["hash seed (real mechanism, chosen value)", "source-set iteration order", "directory enumeration order",
                  "worker pool scheduling (SimPool)", "clock (SimClock)", "HTTP peer (SimNet)",
                  "FS operation failures / torn writes / kill -9", "history of output dir and of the peer's published tree"],
    "off": ["rich progress thread (FORD_DEBUGGING=1)", "preprocessor (preprocess: false)"],
}


def parse_args(prop):
    ap = argparse.ArgumentParser()
    ap.add_argument("--tier", default=os.environ.get("VERIF_TIER", "quick"), choices=["quick", "thorough"])
    ap.add_argument("--replay")
    ap.add_argument("--budget", type=float, default=float(os.environ.get("VERIF_BUDGET_S", 0)) or None)
    ap.add_argument("--worlds", type=int, default=None)
    ap.add_argument("--no-evidence", action="store_true")
    a = ap.parse_args()
    a.seed = int(os.environ.get("VERIF_SEED", "0"))
    a.jobs = int(os.environ.get("VERIF_JOBS", "16"))
    a.prop = prop
    return a


class Report:
    def __init__(self, args, level, rule):
        self.args = args
        self.prop = args.prop
        self.level = level
        self.t0 = time.monotonic()
        self.known = []
        self.fixed = []
        try:
            with open(KNOWN_PATH) as f:
                kf = json.load(f)
            for e in kf.get("findings", []):
                if e.get("property") == self.prop:
                    (self.known if e.get("status") == "known" else self.fixed).append(e)
        except FileNotFoundError:
            pass
        self.known_seen = {}
        self.violations = []
        self.harness_errors = []
        self.cov = {"evaluations": 0, "distinct_nontrivial": 0, "rule": rule, "samples": [],
                    "cold_runs": 0, "forked_variants": 0, "fault_counts": {}, "probes": {},
                    "simulated_time_s": 0.0, "components": COMPONENTS}
        self.distinct = set()
        self.assumptions = []
        self.counters = {}

    # -- coverage helpers
    def count(self, key, k=1):
        self.counters[key] = self.counters.get(key, 0) + k

    def probe(self, name, k=1):
        self.cov["probes"][name] = self.cov["probes"].get(name, 0) + k

    def fault(self, kind, configured=0, fired=0):
        d = self.cov["fault_counts"].setdefault(kind, {"configured": 0, "fired": 0})
        d["configured"] += configured
        d["fired"] += fired

    def nontrivial(self, key):
        self.distinct.add(key)

    def sample(self, s, limit=3):
        if len(self.cov["samples"]) < limit:
            self.cov["samples"].append(s)

    # -- findings
    def violation(self, signature, what, replay):
        """signature: str.  Known findings are matched by exact signature."""
        for e in self.known:
            if e["signature"] == signature:
                self.known_seen.setdefault(signature, e)
                return "known"
        for v in self.violations:
            if v["signature"] == signature:
                v["count"] += 1
                return "dup"
        self.violations.append({"signature": signature, "what": what, "replay": replay, "count": 1})
        return "new"

    def harness_error(self, msg):
        self.harness_errors.append(msg)

    def finish(self):
        wall = time.monotonic() - self.t0
        prop = self.prop
        for sig, e in sorted(self.known_seen.items()):
            print("KNOWN-FINDING: property=%s %s [signature=%s]" % (prop, e["what_fails"], sig))
        paths = []
        rdir = os.path.join(VERIF, "replays", prop)
        for i, v in enumerate(self.violations):
            os.makedirs(rdir, exist_ok=True)
            path = os.path.join(rdir, "%d-%d.json" % (self.args.seed, i))
            rep = dict(v["replay"])
            rep.update({"property": prop, "signature": v["signature"], "what": v["what"], "seed": self.args.seed})
            with open(path, "w") as f:
                json.dump(rep, f, indent=1, sort_keys=True)
            paths.append(path)
            print("VIOLATION property=%s replay=%s signature=%s :: %s" % (prop, path, v["signature"], v["what"]))
        for h in self.harness_errors[:10]:
            print("HARNESS-ERROR property=%s %s" % (prop, h))
        cov = self.cov
        if not self.args.replay and os.environ.get("VERIF_NO_SELFTEST") != "1":
            # reduced determinism self-test (same spec twice in different processes, all simulated
            # dimensions active): part of every run, DESIGN.md section 3
            try:
                sys.path.insert(0, os.path.join(VERIF, "checks"))
                import selftest
                st = selftest.mini(self.args.seed, 3 if self.args.tier == "quick" else 24)
                cov["selftest"] = st
                if st["mismatches"]:
                    # affects exact replay only, never a verdict (verdicts compare digests of runs
                    # made at one path): reported, but not an exit status
                    print("warning: determinism self-test mismatch: %s" % st["details"])
            except Exception as ex:  # noqa: BLE001
                cov["selftest"] = {"error": repr(ex)}
                print("warning: determinism self-test could not run: %r" % (ex,))
        cov["distinct_nontrivial"] = len(self.distinct)
        cov["runs_per_hour"] = int(cov["evaluations"] / wall * 3600) if wall > 0 else 0
        cov["counters"] = self.counters
        cov["known_findings_seen"] = sorted(self.known_seen)
        cov["fixed_entries"] = [e.get("signature") for e in self.fixed]
        cov["harness_errors"] = len(self.harness_errors)
        zero = [k for k, v in cov["probes"].items() if v == 0]
        if zero:
            print("warning: probes at zero: %s" % ", ".join(sorted(zero)))
        ev = {"property_id": prop, "tier": self.args.tier, "seed": self.args.seed, "level": self.level,
              "coverage": cov, "assumptions": self.assumptions, "wall_s": round(wall, 2),
              "violations": len(self.violations)}
        if not self.args.no_evidence and not self.args.replay:
            os.makedirs(os.path.join(VERIF, "evidence"), exist_ok=True)
            with open(os.path.join(VERIF, "evidence", prop + ".json"), "w") as f:
                json.dump(ev, f, indent=1, sort_keys=True, default=str)
        print("%s tier=%s seed=%d evaluations=%d distinct_nontrivial=%d violations=%d known=%d harness_errors=%d wall=%.1fs"
              % (prop, self.args.tier, self.args.seed, cov["evaluations"], cov["distinct_nontrivial"],
                 len(self.violations), len(self.known_seen), len(self.harness_errors), wall))
        if self.violations:
            return 1
        if self.harness_errors:
            return 2
        return 0
