"""fordsim -- deterministic simulation with fault injection for FORD.

One integer (VERIF_SEED) decides every world, ordering, delay and fault; each
simulated FORD run is a cold interpreter whose every nondeterminism seam is
owned by the shim installed before ``ford`` is imported.  See /verif/DESIGN.md.
"""
