"""Orchestrator side: sandbox layout, snapshots/digests, cold runs, world pool."""
import base64
import concurrent.futures as cf
import hashlib
import json
import multiprocessing
import os
import shutil
import stat
import subprocess
import sys
import time

VERIF = os.path.dirname(os.path.dirname(os.path.abspath(__file__)))
PY = "/venv/bin/python"


def scratch_root():
    for base in ("/dev/shm", os.environ.get("TMPDIR") or "/var/tmp"):
        try:
            p = os.path.join(base, "fordsim")
            os.makedirs(p, exist_ok=True)
            t = os.path.join(p, ".w%d" % os.getpid())
            open(t, "w").close()
            os.unlink(t)
            return p
        except OSError:
            continue
    raise RuntimeError("no scratch directory available")


def new_batch_dir(tag):
    # fixed-length name: path *lengths* reach FORD's heap layout through every path string
    p = os.path.join(scratch_root(), "%s-%07d-%09d" % (tag, os.getpid() % 10**7, time.time_ns() % 10**9))
    os.makedirs(p)
    return p


# ------------------------------------------------------------------ worlds
def materialise(files, root):
    """``files``: {relpath: str | {"b64":..} | {"symlink": target} | {"dir": True}
    | {"mode": int, "text": str}}.  Created in sorted path order (deterministic)."""
    os.makedirs(root, exist_ok=True)
    for rel in sorted(files):
        v = files[rel]
        p = os.path.join(root, rel)
        os.makedirs(os.path.dirname(p), exist_ok=True)
        if isinstance(v, str):
            with open(p, "w", encoding="utf-8", newline="") as f:
                f.write(v)
        elif "symlink" in v:
            os.symlink(v["symlink"], p)
        elif v.get("dir"):
            os.makedirs(p, exist_ok=True)
        elif "b64" in v:
            with open(p, "wb") as f:
                f.write(base64.b64decode(v["b64"]))
        elif "text" in v:
            with open(p, "w", encoding="utf-8", newline="") as f:
                f.write(v["text"])
        else:
            raise ValueError("bad world entry %r" % (v,))
        if isinstance(v, dict) and "mode" in v:
            os.chmod(p, v["mode"])


def wipe(path):
    if os.path.islink(path) or os.path.isfile(path):
        os.unlink(path)
        return
    if not os.path.isdir(path):
        return
    for dp, dns, fns in os.walk(path):
        try:
            os.chmod(dp, 0o755)
        except OSError:
            pass
    shutil.rmtree(path, ignore_errors=True)


def sha(b):
    return hashlib.sha256(b).hexdigest()


def snapshot(root, exclude=(), meta=True):
    """{relpath: [type, mode, size, sha256|target, mtime_ns]} for everything under
    root, not descending into ``exclude`` (absolute real paths)."""
    out = {}
    exclude = tuple(exclude)

    def walk(d):
        try:
            names = sorted(os.listdir(d))
        except OSError as e:
            out[os.path.relpath(d, root) + "/<unlistable>"] = ["err", e.errno]
            return
        for n in names:
            p = os.path.join(d, n)
            if p in exclude:
                continue
            rel = os.path.relpath(p, root)
            st = os.lstat(p)
            if stat.S_ISLNK(st.st_mode):
                out[rel] = ["l", 0, 0, os.readlink(p), st.st_mtime_ns if meta else 0]
            elif stat.S_ISDIR(st.st_mode):
                out[rel] = ["d", stat.S_IMODE(st.st_mode) if meta else 0, 0, "", st.st_mtime_ns if meta else 0]
                walk(p)
            elif stat.S_ISREG(st.st_mode):
                try:
                    with open(p, "rb") as f:
                        h = sha(f.read())
                except OSError as e:
                    h = "unreadable:%s" % e.errno
                out[rel] = ["f", stat.S_IMODE(st.st_mode) if meta else 0, st.st_size, h, st.st_mtime_ns if meta else 0]
            else:
                out[rel] = ["o", stat.S_IMODE(st.st_mode), 0, "", 0]
    if os.path.isdir(root):
        walk(root)
    return out


def tree_digest(root):
    """{relpath: sha256} of regular files, 'L:target' for symlinks, 'D' for dirs."""
    out = {}
    if not os.path.isdir(root) or os.path.islink(root):
        return out
    for dp, dns, fns in os.walk(root):
        dns.sort()
        for n in sorted(dns):
            p = os.path.join(dp, n)
            rel = os.path.relpath(p, root)
            out[rel] = "L:" + os.readlink(p) if os.path.islink(p) else "D"
        for n in sorted(fns):
            p = os.path.join(dp, n)
            rel = os.path.relpath(p, root)
            if os.path.islink(p):
                out[rel] = "L:" + os.readlink(p)
            else:
                with open(p, "rb") as f:
                    out[rel] = sha(f.read())
    return out


# --------------------------------------------------------------- cold runs
def base_env(sandbox_home, hashseed):
    return {
        "PYTHONHASHSEED": str(hashseed),
        # FORDSIM_REPO (optional, for background sweeps only): import ford from a snapshot instead of
        # /repo's working tree; registered checks never set it
        "PYTHONPATH": VERIF + (os.pathsep + os.environ["FORDSIM_REPO"] if os.environ.get("FORDSIM_REPO") else ""),
        "PYTHONDONTWRITEBYTECODE": "1",
        "FORD_DEBUGGING": "1",
        "TZ": "UTC",
        "LC_ALL": "C.UTF-8",
        "HOME": sandbox_home,
        "PATH": "/venv/bin:/usr/bin:/bin",
        "COLUMNS": "200",
    }


def run_cold(spec, workdir, hashseed=0, timeout=180, shim=True, tag="run"):
    """Run one simulated FORD execution in a fresh interpreter.  Returns a dict
    {status: ok|timeout|killed|harness-error, result, ops, stdout, rc}."""
    os.makedirs(workdir, exist_ok=True)
    spec = dict(spec)
    spec_path = os.path.join(workdir, tag + ".spec.json")
    res_path = os.path.join(workdir, tag + ".result.json")
    out_path = os.path.join(workdir, tag + ".out")
    spec["oplog"] = os.path.join(workdir, tag + ".oplog")
    for p in (res_path, spec["oplog"], out_path):
        if os.path.exists(p):
            os.unlink(p)
    with open(spec_path, "w") as f:
        json.dump(spec, f)
    home = os.path.join(spec["sandbox"], "home")
    env = base_env(home, hashseed)
    env.update(spec.get("env") or {})
    if shim:
        cmd = ["setarch", "-R", PY, "-X", "faulthandler", "-m", "fordsim.run_one", spec_path, res_path]
        cwd = VERIF
    else:
        cmd = ["setarch", "-R", PY, "-m", "ford"] + list(spec["argv"][1:])
        cwd = spec["cwd"]
    t0 = time.monotonic()
    with open(out_path, "wb") as out:
        try:
            p = subprocess.run(cmd, cwd=cwd, env=env, stdout=out, stderr=subprocess.STDOUT,
                               stdin=subprocess.DEVNULL, timeout=timeout)
            rc = p.returncode
            status = None
        except subprocess.TimeoutExpired:
            rc = None
            status = "timeout"
    wall = time.monotonic() - t0
    with open(out_path, "rb") as f:
        stdout = f.read().decode("utf-8", "replace")
    ops = []
    if os.path.exists(spec["oplog"]):
        with open(spec["oplog"]) as f:
            for line in f:
                line = line.strip()
                if line:
                    try:
                        ops.append(json.loads(line))
                    except ValueError:
                        pass
    result = None
    if os.path.exists(res_path):
        try:
            with open(res_path) as f:
                result = json.load(f)
        except ValueError:
            result = None
    if status is None:
        if not shim:
            status = "ok"
            result = {"outcome": {"kind": "ok"} if rc == 0 else {"kind": "exit", "code": rc}}
        elif rc == 137 and result is None:
            status = "killed"
        elif rc == 0 and result is not None:
            status = "ok"
        else:
            status = "harness-error"
    return {"status": status, "rc": rc, "result": result, "ops": ops, "stdout": stdout, "wall": wall}


# -------------------------------------------------------------- world pool
def _call(args):
    fn, a = args
    return fn(*a)


def map_worlds(fn, arglist, jobs=None, budget_s=None, per_item_timeout=900):
    """Run fn(*args) for each args in arglist on a fork pool; yields (index,
    result | exception).  Stops submitting when the budget is used up."""
    jobs = jobs or int(os.environ.get("VERIF_JOBS", "16"))
    ctx = multiprocessing.get_context("fork")
    t0 = time.monotonic()
    it = iter(enumerate(arglist))
    pending = {}
    with cf.ProcessPoolExecutor(max_workers=jobs, mp_context=ctx) as ex:
        exhausted = False
        while True:
            while not exhausted and len(pending) < jobs + 4:
                if budget_s is not None and time.monotonic() - t0 > budget_s:
                    exhausted = True
                    break
                try:
                    i, a = next(it)
                except StopIteration:
                    exhausted = True
                    break
                pending[ex.submit(fn, *a)] = i
            if not pending:
                break
            done, _ = cf.wait(list(pending), timeout=per_item_timeout, return_when=cf.FIRST_COMPLETED)
            if not done:
                for f in pending:
                    f.cancel()
                raise TimeoutError("world pool made no progress for %ss" % per_item_timeout)
            for f in done:
                i = pending.pop(f)
                try:
                    yield i, f.result()
                except Exception as e:  # noqa: BLE001
                    yield i, e
