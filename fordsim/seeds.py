"""Named, independent PRNG streams derived from one master seed."""
import hashlib
import random


def stream(master, *names) -> random.Random:
    key = "/".join([str(master)] + [str(n) for n in names])
    return random.Random(int.from_bytes(hashlib.sha256(key.encode()).digest()[:8], "big"))


def subseed(master, *names) -> int:
    key = "/".join([str(master)] + [str(n) for n in names])
    return int.from_bytes(hashlib.sha256(key.encode()).digest()[:6], "big")


def permute(seq, seed, *names):
    """Deterministic permutation of ``seq`` (which is first put in sorted order)."""
    items = sorted(seq, key=lambda x: str(x))
    stream(seed, *names).shuffle(items)
    return items
