"""World generators: abstract module-graph model -> Fortran source files, and
project-file rendering.  Everything is drawn from the rng passed in; the
abstract model is plain JSON so replay files carry it."""
from . import usemodel

UNKNOWN_MODS = ["mpi", "netcdf", "hdf5", "petsc", "omp_lib", "iso_fortran_env", "lapack95"]
KINDS = ["var", "param", "type", "sub", "func", "generic", "absint"]


def _case(rng, s, p=0.15):
    return s.upper() if rng.random() < p else s


KNOWN_EXTERNAL = ["mpi", "omp_lib", "iso_c_binding", "iso_fortran_env", "ieee_arithmetic", "openacc", "mpi_f08"]


def gen_modgraph(rng, profile=None):
    """profile keys: max_mods, max_ents, dup_names (bool), unknown_uses (bool),
    extras (bool: submodule, blockdata, namelist, extra program, type/call families,
    duplicate module names), prefix (str for all names -- used to make a second
    project's names disjoint), n_files, inner_uses (USE inside module procedures and
    interface bodies), intrinsic_names (project modules named like modules FORD knows
    as intrinsic/external)."""
    pr = dict(max_mods=6, min_mods=2, max_ents=5, dup_names=False, unknown_uses=False, extras=False,
              prefix="", progs=True, inner_uses=True, intrinsic_names=True, dup_modules=False, families=False)
    pr.update(profile or {})
    px = pr["prefix"]
    nm = rng.randint(pr["min_mods"], pr["max_mods"])
    mods = []
    exports_of = {}
    tables = {}
    tracer = [0]
    history = {}   # module -> list of rename pair-lists already used (for ONLY / non-ONLY echoes)

    def tr():
        tracer[0] += 1
        return "%stracer%dq" % (px, tracer[0])

    fresh = [0]

    def local_name():
        fresh[0] += 1
        return "%sloc%d" % (px, fresh[0])

    def gen_uses(candidates, own_names, max_uses=3, min_uses=None):
        uses = []
        if not candidates:
            return uses
        lo = (0 if rng.random() < 0.15 else 1) if min_uses is None else min_uses
        k = rng.randint(lo, max(lo, min(max_uses, len(candidates))))
        # bias towards the most recent modules: builds chains
        chosen = []
        pool = list(candidates)
        for _ in range(k):
            if not pool:
                break
            if rng.random() < 0.5:
                c = pool[-1]
            else:
                c = rng.choice(pool)
            pool.remove(c)
            chosen.append(c)
        taken = set(own_names)
        for c in sorted(chosen):
            ex = exports_of[c]
            allnames = {n for cl in usemodel.CLASSES for n in ex[cl]}
            names = sorted(allnames - taken)
            form = rng.choice(["plain", "plain", "only", "only", "rename", "only+rename", "split", "echo", "only-empty", "swap"])
            prefix = rng.choice(["", "", "", "non_intrinsic", "::"])
            if form == "swap":
                # `only: a => b, b => a` (and the three-name shift written downstream-first): every clause's local
                # name is another clause's use-name
                done = False
                for cl in rng.sample(list(usemodel.CLASSES), len(usemodel.CLASSES)):
                    cn = sorted(n for n in ex[cl] if n not in taken)
                    if len(cn) >= 2:
                        pick = rng.sample(cn, 3 if len(cn) >= 3 and rng.random() < 0.4 else 2)
                        pairs = [[pick[i], pick[(i + 1) % len(pick)]] for i in range(len(pick))]
                        if rng.random() < 0.5:
                            uses.append({"mod": c, "only": pairs, "renames": [], "prefix": prefix})
                            taken.update(pick)
                        elif not ((allnames - set(pick)) & taken):
                            uses.append({"mod": c, "only": None, "renames": pairs, "prefix": prefix})
                            taken.update(allnames)
                        else:
                            continue
                        done = True
                        break
                if done:
                    continue
                form = "only"
            if form == "only-empty":
                if rng.random() < 0.3:
                    uses.append({"mod": c, "only": [], "renames": [], "prefix": prefix})
                    continue
                form = "only"
            if form == "echo":
                # the same rename list as an earlier USE of this module, in the other form (ONLY <-> no ONLY)
                done = False
                for pairs, was_only in history.get(c, []):
                    locs = {l for l, _ in pairs}
                    rems = {r for _, r in pairs}
                    if not rems <= allnames or locs & taken:
                        continue
                    if was_only:
                        rest = allnames - rems
                        if rest & taken:
                            continue
                        uses.append({"mod": c, "only": None, "renames": [list(x) for x in pairs], "prefix": prefix})
                        taken.update(rest)
                    else:
                        uses.append({"mod": c, "only": [list(x) for x in pairs], "renames": [], "prefix": prefix})
                    taken.update(locs)
                    done = True
                    break
                if done:
                    continue
                form = "only+rename"
            if not names or form == "plain":
                # plain import: every export becomes visible; skip if it would clash
                if any(n in taken for n in allnames):
                    # restrict to non clashing names through ONLY
                    if not names:
                        continue
                    uses.append({"mod": c, "only": [[n, n] for n in names], "renames": [], "prefix": prefix})
                else:
                    uses.append({"mod": c, "only": None, "renames": [], "prefix": prefix})
                taken.update(names)
                continue
            if form == "rename":
                clash = any(n in taken for n in allnames)
                if clash:
                    form = "only+rename"
                else:
                    rn = rng.sample(names, min(len(names), rng.randint(1, 2)))
                    ren = [[local_name(), r] for r in rn]
                    uses.append({"mod": c, "only": None, "renames": ren, "prefix": prefix})
                    history.setdefault(c, []).append((ren, False))
                    taken.update(n for n in names if n not in rn)
                    taken.update(l for l, _ in ren)
                    continue
            sel = rng.sample(names, rng.randint(1, len(names)))
            sel.sort()
            items = []
            for r in sel:
                if form == "only+rename" and rng.random() < 0.6:
                    items.append([local_name(), r])
                else:
                    items.append([r, r])
            taken.update(l for l, _ in items)
            if form == "only+rename" and all(l != r for l, r in items):
                history.setdefault(c, []).append((items, True))
            if form == "split" and len(items) > 1:
                h = len(items) // 2
                uses.append({"mod": c, "only": items[:h], "renames": [], "prefix": prefix})
                uses.append({"mod": c, "only": items[h:], "renames": [], "prefix": rng.choice(["", "::"])})
            else:
                uses.append({"mod": c, "only": items, "renames": [], "prefix": prefix})
        return uses

    labels = list(range(nm))
    rng.shuffle(labels)   # the order of module names is independent of the dependency order
    special = {}
    if pr["intrinsic_names"] and not px:
        for i in range(nm):
            if rng.random() < 0.1 and len(special) < 2:
                cand = rng.choice(KNOWN_EXTERNAL)
                if cand not in special.values():
                    special[i] = cand
    for i in range(nm):
        name = special.get(i) or "%sm%d" % (px, labels[i])
        default = rng.choice([None, None, "public", "private", "private"])
        mod = {"name": name, "default": default, "ents": [], "uses": [], "pub_imports": [], "tr": tr(),
               "unknown": []}
        ne = rng.randint(1, pr["max_ents"])
        kinds = KINDS + (["iface"] if pr["inner_uses"] else [])
        if rng.random() < 0.12:
            kinds = ["var", "param"]   # a constants-only module: exports no procedure, interface or type
        for j in range(ne):
            kind = rng.choice(kinds)
            ename = "%se%d%s%d" % (px, i, kind[0], j)
            if pr["dup_names"] and rng.random() < 0.25 and kind in ("sub", "func", "type", "var"):
                ename = "%s%s" % (px, rng.choice(["helper", "util", "state"]))
                if any(e["name"] == ename for e in mod["ents"]):
                    ename = "%se%d%s%d" % (px, i, kind[0], j)
                    access = rng.choice([None, "public", "private"])
                else:
                    access = "private"  # equal names in different modules: never exported
            else:
                access = rng.choice([None, None, "public", "private"])
                if kind == "var" and rng.random() < 0.15:
                    access = "protected"
            form = "stmt" if kind in ("sub", "func", "generic", "absint", "iface") else rng.choice(["attr", "stmt"])
            if access == "protected":
                form = "attr"
            ent = {"name": ename, "kind": kind, "access": access, "form": form, "tr": tr()}
            if pr.get("undoc", True) and rng.random() < 0.15:
                ent["undoc"] = True   # no doc comment: hidden by hide_undoc
            ctor = None
            if kind == "generic" and pr.get("ctor_generics") and rng.random() < 0.4:
                # an overloaded structure constructor: a generic interface named like a derived type of the
                # same module (both follow the module's default accessibility); one name, two entities
                tys = [x for x in mod["ents"] if x["kind"] == "type" and x.get("access") is None and not x.get("ctor")]
                if tys:
                    ctor = rng.choice(tys)
                    ctor["ctor"] = True
                    ent["name"] = ctor["name"]
                    ent["access"] = None
            if kind == "generic":
                sp = {"name": ename + "x", "kind": "func" if ctor else "sub", "access": rng.choice([None, "private"]), "form": "stmt",
                      "tr": tr()}
                mod["ents"].append(sp)
                ent["specific"] = sp["name"]
            mod["ents"].append(ent)
        own_names = {e["name"] for e in mod["ents"]}
        mod["uses"] = gen_uses([m["name"] for m in mods], own_names)
        present = {m["name"] for m in mods} | {name} | set(special.values())
        if pr["unknown_uses"] and rng.random() < 0.6:
            pool = [u for u in UNKNOWN_MODS if u not in present]
            mod["unknown"] = rng.sample(pool, min(len(pool), rng.randint(2, 4)))
        imp = usemodel.imports(mod["uses"], exports_of)
        if default == "private":
            imported = sorted({n for cl in usemodel.CLASSES for n in imp[cl]})
            if imported and rng.random() < 0.7:
                mod["pub_imports"] = rng.sample(imported, rng.randint(1, len(imported)))
        # references through visible type names
        vis_types = sorted(set(imp["types"]) | {e["name"] for e in mod["ents"] if e["kind"] == "type"})
        seen_types = set(imp["types"])
        for e in mod["ents"]:
            if e["kind"] == "type":
                cands = sorted(seen_types)
                if cands and rng.random() < 0.5:
                    e["extends"] = rng.choice(cands)
                if cands and rng.random() < 0.4:
                    e["comp_type"] = rng.choice(cands)
                seen_types.add(e["name"])
            elif e["kind"] == "var" and vis_types and rng.random() < 0.5 and e.get("access") != "protected":
                e["vtype"] = rng.choice(vis_types)
        exports_of[name] = usemodel.exports(mod, imp)
        tables[name] = usemodel.merge(imp, usemodel.own_table(mod))
        # inner scopes: USE statements inside module procedures and interface bodies, which may be the
        # module's only reference to the used module
        visible = {n for cl in usemodel.CLASSES for n in tables[name][cl]}
        for e in mod["ents"]:
            if e["kind"] == "iface" or (pr["inner_uses"] and e["kind"] == "sub" and rng.random() < 0.35
                                        and not any(g.get("specific") == e["name"] for g in mod["ents"])):
                e["uses"] = gen_uses([m["name"] for m in mods], visible, max_uses=2, min_uses=1 if mods else 0)
                if e["kind"] == "sub" and mods and rng.random() < 0.35:
                    # a use-associated name hides the host-associated entity of the same name: import an entity of
                    # another module under a local name that the host already makes visible (same class)
                    for cl in rng.sample(list(usemodel.CLASSES), len(usemodel.CLASSES)):
                        hostnames = sorted(n for n in tables[name][cl] if not any(x["name"] == n for x in mod["ents"]))
                        cands = [(mm["name"], r) for mm in mods for r, o in sorted(exports_of[mm["name"]][cl].items())]
                        cands = [(mn, r) for mn, r in cands if r not in visible or True]
                        if hostnames and cands:
                            local = rng.choice(hostnames)
                            mn, remote = rng.choice(cands)
                            if exports_of[mn][cl][remote] != tables[name][cl][local] and \
                                    not any(l == local for u in e["uses"] for l, _ in (u.get("only") or []) + (u.get("renames") or [])):
                                e["uses"].append({"mod": mn, "only": [[local, remote]], "renames": [], "prefix": ""})
                                e["shadows"] = local
                            break
                iimp = usemodel.imports(e["uses"], exports_of)
                tcands = sorted(iimp["types"]) if e["kind"] == "iface" else sorted(set(iimp["types"]) | set(vis_types))
                if tcands and rng.random() < 0.8:
                    e["argtype"] = rng.choice(tcands)
            if e["kind"] == "sub" and pr.get("proc_calls", True) and rng.random() < 0.4:
                pc = sorted((set(tables[name]["procs"]) | set(usemodel.imports(e.get("uses") or [], exports_of)["procs"])) - {e["name"]})
                pc = [c for c in pc if not any(x["name"] == c and x["kind"] in ("generic", "iface") for x in mod["ents"])]
                pc = [c for c in pc if c not in tables[name]["types"] and c not in usemodel.imports(e.get("uses") or [], exports_of)["types"]]   # a constructor is not CALLed
                if pc:
                    e["calls"] = rng.sample(pc, min(len(pc), rng.randint(1, 2)))
        mods.append(mod)

    # submodules with USE statements of their own (the ancestor's names are host-associated)
    submods = []
    if pr["inner_uses"] and pr.get("submodules", True):
        for i, parent in enumerate(list(mods)):
            if rng.random() < 0.2 and not parent["name"] in KNOWN_EXTERNAL:
                sname = "%s%s_sub%d" % (px, rng.choice(["a", "z"]), i)
                vis = {n for cl in usemodel.CLASSES for n in tables[parent["name"]][cl]}
                cands = [m["name"] for m in mods if m["name"] != parent["name"]]
                suses = gen_uses(cands, vis, max_uses=2, min_uses=1) if cands else []
                if suses:
                    submods.append({"name": sname, "parent": parent["name"], "uses": suses, "tr": tr()})

    progs, extprocs = [], []
    if pr["progs"]:
        for k in range(rng.randint(1, 2 if not pr["extras"] else 3)):
            pname = "%sp%d" % (px, k)
            ents = [{"name": "%sv%d" % (pname, j), "kind": "var", "access": None, "form": "attr", "tr": tr()}
                    for j in range(rng.randint(0, 2))]
            uses = gen_uses([m["name"] for m in mods], {e["name"] for e in ents})
            imp = usemodel.imports(uses, exports_of)
            present = {m["name"] for m in mods}
            unit = {"name": pname, "uses": uses, "ents": ents, "tr": tr(), "calls": [], "vtypes": [],
                    "unknown": rng.sample([u for u in UNKNOWN_MODS if u not in present], 2)
                    if pr["unknown_uses"] and rng.random() < 0.4 else []}
            procs = sorted(n for n in imp["procs"] if n not in imp["types"])
            if procs:
                unit["calls"] = rng.sample(procs, min(len(procs), rng.randint(1, 3)))
            types = sorted(imp["types"])
            for e in ents:
                if types and rng.random() < 0.6:
                    e["vtype"] = rng.choice(types)
            if pr["inner_uses"] and mods and rng.random() < 0.4:
                # a BLOCK construct with a USE of its own and a call through a name it imports
                vis = {n for cl in usemodel.CLASSES for n in imp[cl]} | {e["name"] for e in ents}
                buses = gen_uses([m["name"] for m in mods], vis, max_uses=1, min_uses=1)
                bimp = usemodel.imports(buses, exports_of)
                if buses:
                    unit["block"] = {"uses": buses, "calls": (lambda bp: rng.sample(bp, min(len(bp), 2)))(sorted(n for n in bimp["procs"] if n not in bimp["types"]))}
            progs.append(unit)
        for k in range(rng.randint(0, 2)):
            ename = "%sx%d" % (px, k)
            uses = gen_uses([m["name"] for m in mods], set())
            imp = usemodel.imports(uses, exports_of)
            unit = {"name": ename, "uses": uses, "ents": [], "tr": tr(), "calls": [], "unknown": []}
            procs = sorted(n for n in imp["procs"] if n not in imp["types"])
            if procs:
                unit["calls"] = rng.sample(procs, min(len(procs), rng.randint(1, 2)))
            extprocs.append(unit)

    extras = []
    if pr["extras"]:
        if rng.random() < 0.6:
            parent = rng.choice(mods)
            parent["smod_iface"] = "%ssm_%s_proc" % (px, parent["name"])
            extras.append({"kind": "submodule", "name": "%ssm_%s" % (px, parent["name"]), "parent": parent["name"],
                           "proc": parent["smod_iface"], "tr": tr()})
            if rng.random() < 0.5:
                extras.append({"kind": "submodule", "name": "%ssm2_%s" % (px, parent["name"]), "parent": parent["name"],
                               "parent_sub": "%ssm_%s" % (px, parent["name"]), "proc": None, "tr": tr()})
        for k in range(rng.randint(0, 2)):
            extras.append({"kind": "blockdata", "name": "%sbd%d" % (px, k), "tr": tr()})
        if rng.random() < 0.4:
            extras.append({"kind": "nlprog", "name": "%snlp" % px, "tr": tr()})
        if rng.random() < 0.5:
            # two external procedures with equal names cannot coexist; equal names as *internal*
            # procedures of different hosts can
            extras.append({"kind": "hosts", "name": "%shost" % px, "tr": tr(), "n": rng.randint(2, 3),
                           "inner": "%sinner" % px})
    if pr["families"]:
        if rng.random() < 0.5:
            extras.append({"kind": "typefam", "name": "%stfam" % px, "tr": tr(), "n": rng.randint(2, 4)})
        if rng.random() < 0.5:
            extras.append({"kind": "callfam_h", "name": "%scfh" % px, "tr": tr()})
            for k in range(rng.randint(2, 3)):
                extras.append({"kind": "callfam_u", "name": "%scfu%d" % (px, k), "tr": tr(), "helper_mod": "%scfh" % px,
                               "helper": "%scfhhelper" % px, "setup": "%ssetup" % px})
    if pr["families"]:
        if rng.random() < 0.4:
            # equally named types in two modules, both extended (under renames) in a third
            extras.append({"kind": "eqtypes", "name": "%seqt" % px, "tr": tr()})
        if rng.random() < 0.4:
            # a generic type-bound procedure inherited, not overridden, by several extending types
            extras.append({"kind": "genbind", "name": "%sgbd" % px, "tr": tr(), "n": rng.randint(2, 3)})
    if pr["dup_modules"] and rng.random() < 0.35:
        victim = rng.choice(mods)
        extras.append({"kind": "dupmod", "name": "%sdup_of_%s" % (px, victim["name"]), "modname": victim["name"], "tr": tr()})

    # distribute units over files
    units = [("module", m["name"]) for m in mods] + [("submod", sm["name"]) for sm in submods] + [("program", p["name"]) for p in progs] + \
            [("extproc", x["name"]) for x in extprocs] + [("extra", e["name"]) for e in extras if e["kind"] != "dupmod"]
    nf = pr.get("n_files") or rng.randint(1 if len(units) < 2 else 2, min(6, len(units)))
    files = {}
    fnames = ["src/%sf%d.f90" % (px, i) for i in range(nf)]
    if pr["extras"] and nf > 2 and rng.random() < 0.5:
        fnames[-1] = "src/sub/%sf%d.f90" % (px, nf - 1)
    order = list(units)
    rng.shuffle(order)
    for i, u in enumerate(order):
        f = fnames[i] if i < nf else rng.choice(fnames)
        files.setdefault(f, []).append(list(u))
    for e in extras:
        if e["kind"] == "dupmod":   # an equally named module always lives in a file of its own
            files["src/%s%s.f90" % (px, rng.choice(["a_dup", "zz_dup"]))] = [["extra", e["name"]]]
    world = {"mods": mods, "progs": progs, "extprocs": extprocs, "extras": extras, "files": files,
             "prefix": px, "submods": submods}
    return world


# ----------------------------------------------------------------- rendering
def _use_line(rng_case, u):
    """Fortran is case-insensitive and liberal with blanks: the spelling is varied per statement."""
    c = lambda x: _case(rng_case, x, 0.12)  # noqa: E731
    arrow = rng_case.choice([" => ", "=>", " =>", "=> "])
    kw = rng_case.choice(["use", "use", "use", "USE", "Use"])
    pre = {"": kw + " ", "::": kw + " :: ", "non_intrinsic": rng_case.choice([kw + ", non_intrinsic :: ", kw + ",non_intrinsic::", kw + " , NON_INTRINSIC :: "])}[u.get("prefix") or ""]
    s = pre + c(u["mod"])
    if u.get("only") is not None:
        items = [(c(l) if l == r else "%s%s%s" % (c(l), arrow, c(r))) for l, r in u["only"]]
        only = rng_case.choice([", only: ", ", only : ", ",only:", ", ONLY: "])
        s += only + ", ".join(items) if items else ", only:"
    elif u.get("renames"):
        s += ", " + ", ".join("%s%s%s" % (c(l), arrow, c(r)) for l, r in u["renames"])
    return s


def _doc_line(e, indent):
    return [] if e.get("undoc") else ["%s!! %s" % (indent, e["tr"])]


def _doc_inline(e):
    return "" if e.get("undoc") else " !! %s" % e["tr"]


def _mix(rng, name, p=0.25):
    """Fortran names are case-insensitive: spell an occurrence with some letters in upper case"""
    if rng.random() > p:
        return name
    return "".join(ch.upper() if rng.random() < 0.4 else ch for ch in name)


def render_module(mod, rng):
    L = ["module %s" % mod["name"], "  !! %s" % mod["tr"]]
    for u in mod["uses"]:
        L.append("  " + _use_line(rng, u))
    for n in mod.get("unknown", []):
        L.append("  use %s" % n)
    L.append("  implicit none")
    if mod["default"]:
        L.append("  %s" % mod["default"])
    stmts = []
    for e in mod["ents"]:
        if e.get("access") and e["form"] == "stmt":
            stmts.append("  %s :: %s" % (e["access"], _mix(rng, e["name"])))
    if mod.get("pub_imports"):
        stmts.append("  public :: " + ", ".join(_mix(rng, n) for n in mod["pub_imports"]))
    early = [s for s in stmts if rng.random() < 0.5]
    late = [s for s in stmts if s not in early]
    L.extend(early)
    contains = []
    for e in mod["ents"]:
        attr = ", %s" % e["access"] if e.get("access") and e["form"] == "attr" else ""
        k = e["kind"]
        if k == "var":
            ty = "type(%s)" % e["vtype"] if e.get("vtype") else "integer"
            L.append("  %s%s :: %s%s" % (ty, attr, _mix(rng, e["name"]), _doc_inline(e)))
        elif k == "param":
            L.append("  integer, parameter%s :: %s = %d%s" % (attr, e["name"], len(e["name"]), _doc_inline(e)))
        elif k == "type":
            ext = ", extends(%s)" % e["extends"] if e.get("extends") else ""
            L.append("  type%s%s :: %s" % (attr, ext, _mix(rng, e["name"])))
            L.extend(_doc_line(e, "    "))
            L.append("    integer :: c_%s !! component of %s" % (e["name"], e["name"]))
            if e.get("comp_type"):
                L.append("    type(%s) :: k_%s" % (e["comp_type"], e["name"]))
            L.append("  end type %s" % e["name"])
        elif k == "generic":
            L.append("  interface %s" % e["name"])
            L.extend(_doc_line(e, "    "))
            L.append("    module procedure %s" % e["specific"])
            L.append("  end interface %s" % e["name"])
        elif k == "absint":
            L.append("  abstract interface")
            L.append("    subroutine %s()" % e["name"])
            L.extend(_doc_line(e, "      "))
            L.append("    end subroutine %s" % e["name"])
            L.append("  end interface")
        elif k == "sub":
            arg = e["name"] + "_a" if (e.get("argtype") or e.get("uses")) else ""
            contains += ["  subroutine %s(%s)" % (e["name"], arg)] + _doc_line(e, "    ")
            for u in e.get("uses") or []:
                contains.append("    " + _use_line(rng, u))
            if arg:
                contains.append("    %s :: %s" % ("type(%s)" % e["argtype"] if e.get("argtype") else "integer", arg))
            for c in e.get("calls") or []:
                contains.append("    call %s()" % c)
            contains.append("  end subroutine %s" % e["name"])
        elif k == "iface":
            L.append("  interface")
            L.append("    subroutine %s(%s_a)" % (e["name"], e["name"]))
            L.extend(_doc_line(e, "      "))
            for u in e.get("uses") or []:
                L.append("      " + _use_line(rng, u))
            L.append("      %s :: %s_a" % ("type(%s)" % e["argtype"] if e.get("argtype") else "integer", e["name"]))
            L.append("    end subroutine %s" % e["name"])
            L.append("  end interface")
        elif k == "func":
            contains += ["  integer function %s()" % e["name"]] + _doc_line(e, "    ") + [
                         "    %s = 1" % e["name"], "  end function %s" % e["name"]]
    if mod.get("smod_iface"):
        L += ["  interface", "    module subroutine %s()" % mod["smod_iface"],
              "    end subroutine %s" % mod["smod_iface"], "  end interface"]
    L.extend(late)
    if contains:
        L.append("contains")
        L.extend(contains)
    L.append("end module %s" % mod["name"])
    return L


def render_prog(p, rng):
    L = ["program %s" % p["name"], "  !! %s" % p["tr"]]
    for u in p["uses"]:
        L.append("  " + _use_line(rng, u))
    for n in p.get("unknown", []):
        L.append("  use %s" % n)
    L.append("  implicit none")
    for e in p["ents"]:
        ty = "type(%s)" % e["vtype"] if e.get("vtype") else "integer"
        L.append("  %s :: %s !! %s" % (ty, e["name"], e["tr"]))
    for c in p["calls"]:
        L.append("  call %s()" % c)
    if p.get("block"):
        L.append("  block")
        for u in p["block"]["uses"]:
            L.append("    " + _use_line(rng, u))
        for c in p["block"]["calls"]:
            L.append("    call %s()" % c)
        L.append("  end block")
    L.append("end program %s" % p["name"])
    return L


def render_extproc(x, rng):
    L = ["subroutine %s()" % x["name"], "  !! %s" % x["tr"]]
    for u in x["uses"]:
        L.append("  " + _use_line(rng, u))
    L.append("  implicit none")
    for c in x["calls"]:
        L.append("  call %s()" % c)
    L.append("end subroutine %s" % x["name"])
    return L


def render_extra(e, rng):
    k = e["kind"]
    if k == "submodule":
        head = "submodule (%s%s) %s" % (e["parent"], ":" + e["parent_sub"] if e.get("parent_sub") else "", e["name"])
        L = [head, "  !! %s" % e["tr"]]
        if e.get("proc"):
            L += ["contains", "  module subroutine %s()" % e["proc"], "  end subroutine %s" % e["proc"]]
        L.append("end submodule %s" % e["name"])
        return L
    if k == "blockdata":
        return ["block data %s" % e["name"], "  !! %s" % e["tr"], "  integer :: bq_%s" % e["name"],
                "  common /cb_%s/ bq_%s" % (e["name"], e["name"]), "  data bq_%s /1/" % e["name"],
                "end block data %s" % e["name"]]
    if k == "nlprog":
        n = e["name"]
        return ["program %s" % n, "  !! %s" % e["tr"], "  integer :: %s_na, %s_nb" % (n, n),
                "  namelist /nl_%s/ %s_na, %s_nb" % (n, n, n), "  %s_na = 1" % n, "end program %s" % n]
    if k == "hosts":
        L = []
        for i in range(e["n"]):
            inner = e.get("inner", "inner")
            L += ["subroutine %s%d()" % (e["name"], i), "  !! %s h%d" % (e["tr"], i), "  call %s()" % inner, "contains",
                  "  subroutine %s()" % inner, "    !! inner of %d" % i, "  end subroutine %s" % inner,
                  "end subroutine %s%d" % (e["name"], i), ""]
        return L
    if k == "typefam":
        n = e["name"]
        L = ["module %s" % n, "  !! %s" % e["tr"], "  implicit none", "  type :: %s_base" % n, "    integer :: i", "  end type %s_base" % n]
        for i in range(e["n"]):
            L += ["  type, extends(%s_base) :: %s_c%d" % (n, n, i), "    integer :: j%d" % i, "  end type %s_c%d" % (n, i)]
        L += ["  type :: %s_holder" % n]
        for i in range(e["n"]):
            L.append("    type(%s_c%d) :: h%d" % (n, i, i))
        L += ["    type(%s_base) :: hb" % n, "  contains", "    procedure :: describe => %s_describe" % n,
              "    procedure :: %s_scale" % n, "    generic :: op => describe, %s_scale" % n, "    final :: %s_cleanup" % n,
              "  end type %s_holder" % n, "contains",
              "  subroutine %s_describe(self)" % n, "    !! bound procedure", "    class(%s_holder), intent(in) :: self" % n, "  end subroutine %s_describe" % n,
              "  subroutine %s_scale(self, f)" % n, "    class(%s_holder), intent(inout) :: self" % n, "    real, intent(in) :: f", "  end subroutine %s_scale" % n,
              "  subroutine %s_cleanup(self)" % n, "    type(%s_holder), intent(inout) :: self" % n, "  end subroutine %s_cleanup" % n,
              "end module %s" % n]
        return L
    if k == "callfam_h":
        return ["module %s" % e["name"], "  !! %s" % e["tr"], "  implicit none", "contains", "  subroutine %shelper()" % e["name"],
                "  end subroutine %shelper" % e["name"], "end module %s" % e["name"]]
    if k == "callfam_u":
        n = e["name"]
        return ["module %s" % n, "  !! %s" % e["tr"], "  use %s" % e["helper_mod"], "  implicit none",
                "contains", "  subroutine %s()" % e["setup"], "    !! setup of %s" % n, "    call %s()" % e["helper"],
                "  end subroutine %s" % e["setup"], "  subroutine %s_run()" % n, "    call %s()" % e["setup"],
                "  end subroutine %s_run" % n, "end module %s" % n]
    if k == "eqtypes":
        n = e["name"]
        L = []
        for x in ("a", "b"):
            L += ["module %s_%s" % (n, x), "  !! %s %s" % (e["tr"], x), "  implicit none", "  type :: %s_base" % n,
                  "    integer :: from_%s" % x, "  end type %s_base" % n, "end module %s_%s" % (n, x), ""]
        L += ["module %s_c" % n, "  !! %s c" % e["tr"], "  use %s_a, only: %s_ba => %s_base" % (n, n, n),
              "  use %s_b, only: %s_bb => %s_base" % (n, n, n), "  implicit none",
              "  type, extends(%s_ba) :: %s_ca" % (n, n), "    integer :: ia", "  end type %s_ca" % n,
              "  type, extends(%s_bb) :: %s_cb" % (n, n), "    integer :: ib", "  end type %s_cb" % n, "end module %s_c" % n]
        return L
    if k == "genbind":
        n = e["name"]
        L = ["module %s" % n, "  !! %s" % e["tr"], "  implicit none", "  type :: %s_num" % n, "    integer :: v", "  contains",
             "    procedure :: %s_add_i" % n, "    procedure :: %s_add_r" % n, "    generic :: add => %s_add_i, %s_add_r" % (n, n),
             "  end type %s_num" % n]
        for i in range(e["n"]):
            L += ["  type, extends(%s_num) :: %s_child%d" % (n, n, i), "    integer :: w%d" % i, "  end type %s_child%d" % (n, i)]
        L += ["contains", "  subroutine %s_add_i(self, i)" % n, "    class(%s_num), intent(inout) :: self" % n, "    integer, intent(in) :: i",
              "  end subroutine %s_add_i" % n, "  subroutine %s_add_r(self, r)" % n, "    class(%s_num), intent(inout) :: self" % n,
              "    real, intent(in) :: r", "  end subroutine %s_add_r" % n, "end module %s" % n]
        return L
    if k == "dupmod":
        return ["module %s" % e["modname"], "  !! second definition %s" % e["tr"], "  implicit none",
                "  integer :: dup_marker_%s" % e["modname"], "end module %s" % e["modname"]]
    raise ValueError(k)


def render_sources(world, rng):
    """-> {relpath: text}"""
    by = {("module", m["name"]): m for m in world["mods"]}
    by.update({("program", p["name"]): p for p in world["progs"]})
    by.update({("extproc", x["name"]): x for x in world["extprocs"]})
    by.update({("extra", e["name"]): e for e in world.get("extras", [])})
    by.update({("submod", e["name"]): e for e in world.get("submods", [])})
    out = {}
    for f, units in sorted(world["files"].items()):
        L = []
        for kind, name in units:
            obj = by[(kind, name)]
            if kind == "module":
                L += render_module(obj, rng)
            elif kind == "program":
                L += render_prog(obj, rng)
            elif kind == "extproc":
                L += render_extproc(obj, rng)
            elif kind == "submod":
                L += ["submodule (%s) %s" % (obj["parent"], obj["name"]), "  !! %s" % obj["tr"]] + \
                     ["  " + _use_line(rng, u) for u in obj["uses"]] + ["  implicit none", "end submodule %s" % obj["name"]]
            else:
                L += render_extra(obj, rng)
            L.append("")
        out[f] = "\n".join(L) + "\n"
    return out


def render_project_file(options, body="Project body text.\n"):
    """options: dict key -> str | bool | int | list[str]"""
    L = ["---"]
    for k in sorted(options):
        v = options[k]
        if isinstance(v, bool):
            v = "true" if v else "false"
        if isinstance(v, list):
            if not v:
                continue
            L.append("%s: %s" % (k, v[0]))
            for x in v[1:]:
                L.append("    %s" % x)
        else:
            L.append("%s: %s" % (k, v))
    L.append("---")
    L.append("")
    L.append(body)
    return "\n".join(L)


# ------------------------------------------------------------ normalisation
def normalize(world):
    """Make an edited (shrunk) abstract world self-consistent again: strip
    references to modules/entities that no longer exist or are no longer
    visible.  Returns the same dict, modified in place."""
    exports_of = {}

    def fix_uses(uses):
        out = []
        for u in uses:
            ex = exports_of.get(u["mod"])
            if ex is None:
                continue
            avail = {n for c in usemodel.CLASSES for n in ex[c]}
            if u.get("only") is not None:
                items = [it for it in u["only"] if it[1] in avail]
                if not items and u["only"]:
                    continue
                u = dict(u, only=items)
            elif u.get("renames"):
                u = dict(u, renames=[it for it in u["renames"] if it[1] in avail])
            out.append(u)
        return out

    for mod in world["mods"]:
        names = {e["name"] for e in mod["ents"]}
        mod["ents"] = [e for e in mod["ents"] if e["kind"] != "generic" or e.get("specific") in names]
        mod["uses"] = fix_uses(mod["uses"])
        imp = usemodel.imports(mod["uses"], exports_of)
        imported = {n for c in usemodel.CLASSES for n in imp[c]}
        mod["pub_imports"] = [n for n in mod.get("pub_imports", []) if n in imported]
        seen = set(imp["types"])
        alltypes = set(imp["types"]) | {e["name"] for e in mod["ents"] if e["kind"] == "type"}
        for e in mod["ents"]:
            if e["kind"] == "type":
                for k in ("extends", "comp_type"):
                    if e.get(k) and e[k] not in seen:
                        del e[k]
                seen.add(e["name"])
            elif e.get("vtype") and e["vtype"] not in alltypes:
                del e["vtype"]
        vis = {n for c in usemodel.CLASSES for n in imp[c]} | {e["name"] for e in mod["ents"]}
        for e in mod["ents"]:
            if e.get("uses") is not None:
                e["uses"] = fix_uses(e["uses"])
            iimp = usemodel.imports(e.get("uses") or [], exports_of)
            if e.get("argtype"):
                ok = set(iimp["types"]) if e["kind"] == "iface" else set(iimp["types"]) | alltypes
                if e["argtype"] not in ok:
                    del e["argtype"]
            if e.get("calls"):
                okc = set(imp["procs"]) | set(iimp["procs"]) | {x["name"] for x in mod["ents"] if x["kind"] in ("sub", "func")}
                e["calls"] = [c for c in e["calls"] if c in okc]
        if mod.get("smod_iface") and not any(x["kind"] == "submodule" and x["parent"] == mod["name"]
                                             for x in world.get("extras", [])):
            del mod["smod_iface"]
        exports_of[mod["name"]] = usemodel.exports(mod, imp)
    for unit in world.get("progs", []) + world.get("extprocs", []):
        unit["uses"] = fix_uses(unit["uses"])
        imp = usemodel.imports(unit["uses"], exports_of)
        unit["calls"] = [c for c in unit.get("calls", []) if c in imp["procs"] and c not in imp["types"]]
        if unit.get("block"):
            unit["block"]["uses"] = fix_uses(unit["block"]["uses"])
            bimp = usemodel.imports(unit["block"]["uses"], exports_of)
            unit["block"]["calls"] = [c for c in unit["block"]["calls"] if c in bimp["procs"] and c not in bimp["types"]]
            if not unit["block"]["uses"]:
                del unit["block"]
        for e in unit.get("ents", []):
            if e.get("vtype") and e["vtype"] not in imp["types"]:
                del e["vtype"]
    modnames = {m["name"] for m in world["mods"]}
    sm2 = []
    for sm in world.get("submods", []):
        if sm["parent"] in modnames:
            sm["uses"] = fix_uses(sm["uses"])
            if sm["uses"]:
                sm2.append(sm)
    world["submods"] = sm2
    world["extras"] = [x for x in world.get("extras", []) if x["kind"] != "submodule" or x["parent"] in modnames]
    smods = {x["name"] for x in world["extras"] if x["kind"] == "submodule"}
    world["extras"] = [x for x in world["extras"] if not x.get("parent_sub") or x["parent_sub"] in smods]
    present = {("module", m["name"]) for m in world["mods"]} | {("submod", x["name"]) for x in world.get("submods", [])} | \
              {("program", p["name"]) for p in world["progs"]} | \
              {("extproc", x["name"]) for x in world["extprocs"]} | {("extra", e["name"]) for e in world.get("extras", [])}
    files = {}
    for f, units in world["files"].items():
        u2 = [u for u in units if tuple(u) in present]
        if u2:
            files[f] = u2
    world["files"] = files
    return world


def shrink_candidates(world):
    """Yield (description, edited deep copy) candidates, simplest-first."""
    import copy

    def cp():
        return copy.deepcopy(world)
    for key in ("extprocs", "progs", "extras", "submods"):
        for i in range(len(world.get(key, []))):
            w = cp()
            del w[key][i]
            yield "drop %s[%d]" % (key, i), normalize(w)
    for i in reversed(range(len(world["mods"]))):
        w = cp()
        del w["mods"][i]
        yield "drop module %d" % i, normalize(w)
    for i, m in enumerate(world["mods"]):
        for j in reversed(range(len(m["ents"]))):
            w = cp()
            del w["mods"][i]["ents"][j]
            yield "drop entity %d.%d" % (i, j), normalize(w)
    for key in ("mods", "progs", "extprocs"):
        for i, m in enumerate(world.get(key, [])):
            for j in reversed(range(len(m["uses"]))):
                w = cp()
                del w[key][i]["uses"][j]
                yield "drop use %s %d.%d" % (key, i, j), normalize(w)
                u = m["uses"][j]
                if u.get("only") and len(u["only"]) > 1:
                    for k in range(len(u["only"])):
                        w = cp()
                        del w[key][i]["uses"][j]["only"][k]
                        yield "drop only item", normalize(w)
                if u.get("prefix"):
                    w = cp()
                    w[key][i]["uses"][j]["prefix"] = ""
                    yield "plain prefix", normalize(w)
            if m.get("unknown"):
                w = cp()
                w[key][i]["unknown"] = []
                yield "drop unknown uses", normalize(w)
            if m.get("calls"):
                w = cp()
                w[key][i]["calls"] = []
                yield "drop calls", normalize(w)
            if m.get("block"):
                w = cp()
                del w[key][i]["block"]
                yield "drop block", normalize(w)
            if m.get("pub_imports"):
                w = cp()
                w[key][i]["pub_imports"] = []
                yield "drop pub_imports", normalize(w)
            if m.get("default"):
                w = cp()
                w[key][i]["default"] = None
                yield "default access none", normalize(w)
    for i, m in enumerate(world["mods"]):
        for j, e in enumerate(m["ents"]):
            if e.get("uses"):
                for q in reversed(range(len(e["uses"]))):
                    w = cp()
                    del w["mods"][i]["ents"][j]["uses"][q]
                    yield "drop inner use", normalize(w)
            for k in ("argtype", "calls"):
                if e.get(k):
                    w = cp()
                    del w["mods"][i]["ents"][j][k]
                    yield "clear %s" % k, normalize(w)
    for i, m in enumerate(world["mods"]):
        for j, e in enumerate(m["ents"]):
            for k in ("extends", "comp_type", "vtype", "access"):
                if e.get(k):
                    w = cp()
                    w["mods"][i]["ents"][j][k] = None
                    yield "clear %s" % k, normalize(w)
    if len(world["files"]) > 1:
        w = cp()
        allu = [u for f in sorted(w["files"]) for u in w["files"][f]]
        w["files"] = {sorted(w["files"])[0]: allu}
        yield "one file", w
        fs = sorted(world["files"])
        for a in range(len(fs) - 1):
            w = cp()
            w["files"][fs[a]] = w["files"][fs[a]] + w["files"].pop(fs[a + 1])
            yield "merge files", w
