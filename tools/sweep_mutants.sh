#!/bin/bash
# Re-run every seeded change against its check (quick tier); prints one line per change.
cd /verif
for d in seeded/*/; do
  id=$(basename $d); prop=$(python3 -c "import json;m=json.load(open('$d/meta.json'));print(m.get('check') or m['property'].lower())")
  out=$(tools/try_mutant.sh $d/patch.diff $prop 2>&1 | tail -2 | tr '\n' ' ')
  echo "$id $(echo $out | grep -o 'violations=[0-9]*') $(echo $out | grep -o 'check exit=[0-9]*')"
done
