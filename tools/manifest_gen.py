#!/venv/bin/python
"""Regenerate MANIFEST.json from the table below (single source of truth)."""
import json, os
V = os.path.dirname(os.path.dirname(os.path.abspath(__file__)))
NA = {
"C01":"pure function of source text (regex cascade in FortranContainer); no schedule, clock, fault, history or second party between text and entity tree, so simulation has nothing to decide",
"C02":"FortranReader consumes a whole text stream with no partial reads, time-outs or interleaving; layout invariance is a relation between inputs, not executions",
"C03":"docstring attachment/rendering is a pure function of source text and marker options",
"C04":"accessibility is computed from the statements of one scope in one file; no cross-file order, process, clock or I/O involved",
"C05":"the displayed set is a pure function of (program, display/proc_internals/hide_undoc); input x configuration enumeration, not a simulation target",
"C07":"name resolution is a pure function of the program's scope structure (the file-order clause is decided under C06)",
"C08":"call extraction is per-statement text analysis plus C07-style lookup; pure",
"C09":"link integrity is a property of one (program, options) output; no fault, schedule or history in the statement (run-to-run URL stability is C12)",
"C10":"collisions are decided by the names in the program; the only schedule-dependent part (which colliding entity gets which stem) is reported under C12",
"C11":"[[...]] lookup is a pure function of (project, context entity, reference text)",
"C13":"graph content is a pure function of the correlated project and depth/node limits (emission-order nondeterminism is C12)",
"C14":"fixed->free conversion is a pure text transform; equivalence is a relation between inputs",
"C15":"effective configuration is a pure function of (file text, argv, cwd); cwd is an input of the invocation, no time/concurrency/fault",
"C18":"rendering/escaping of declarations is pure template evaluation over parsed strings",
}
PENDING = "claimed in DESIGN.md; check under construction, not yet registered"
CHECKS = {
"C06": dict(level="exploration", design="5.2",
  technique="deterministic simulation: seeded scheduler permutes source-set iteration and directory enumeration order (exhaustive for <=4 files), real Project()+correlate() per schedule in forked variants of a cold process, checked against an executable reference model of USE association and for schedule invariance; cold PYTHONHASHSEED runs tie it to the real mechanism",
  text="Seeded search over (generated module graph, file-read schedule): every schedule of every world is compared with an independent reference model of USE association (local conformance per scope + global tables + resolved references) and with every other schedule. Sampling, not proof; exhaustive over file orders only for worlds with <=4 files.",
  note="constructor generics (a generic interface named like a type of its module, imported through ONLY/rename) are generated, on the module's default accessibility only; worlds also contain USE statements inside module procedures, interface bodies, BLOCK constructs and submodules, shadowing inner USEs, swap/echo/empty rename lists, mixed-case spellings, modules named like intrinsic ones; trusts the ~100-line reference model (fordsim/usemodel.py) and the generator staying inside the quantifier (unique module names, no ambiguous imports, no operator generics); the S1 order seam is a wrapper around ford.fortran_project.find_all_files that only permutes a genuine set return value; forked variants share one cold image"),
"C12": dict(level="exploration", design="5.1",
  technique="deterministic simulation: every variant is a cold fully simulated FORD run; the seeded scheduler varies PYTHONHASHSEED, source-set order, directory enumeration order, worker count with SimPool interleavings (real pickle round trip, baton-passed threads), output-directory history (empty/stale/same/regular file) and a simulated clock, one dimension at a time and all at once; oracle = byte-identical output tree and equal outcome vs the reference run; plan-then-world minimisation, twice-cold confirmation, shim-free / heap-pad classification",
  text="Seeded search over (generated multi-file world incl. equal entity names, unknown-module USE sets, submodules, block data, pages, option swarm) x the schedule/history dimensions the statement names. Each evaluation is a complete real run in a fresh interpreter; output trees are compared byte for byte. Sampling, not proof; file-order permutations exhaustive only for <=3 (quick) / <=4 (thorough) files.",
  note="worlds include FORD's own example project, type/call families, equally named modules and types, odd file names, CRLF/tabs/non-ASCII, includes, fixed form; history variants also leave stale files in an external graph directory; SimPool is a model of process_map (real-pool variants tie it to the mechanism); all variants share one absolute path, scrubbed environment, ASLR off; mtimes/modes not compared; FORD crashes on project_url+search (outside the claimed properties) so that combination is not generated"),
"C19": dict(level="fault_enumeration", design="5.3",
  technique="deterministic simulation with fault injection: a fault-free cold run numbers every file-system operation of the run; the run is then repeated with one injected fault (errno menu, torn write, failing child, kill -9) at a stratified sample of operation indices (quick) or at every index (thorough sweeps), plus sampled two-fault plans; oracle = mutating-operation log confined to the allowed roots + before/after content+metadata snapshot of the whole sandbox + refusal-before-first-mutation",
  text="Enumerates single faults over the numbered FS operations of real FORD runs in sandboxes with bystander files, across placements of output_dir/graph_dir (sibling, nested, absolute, .., symlink, pre-existing stale with hostile symlinks, regular file, CLI) incl. six refusal placements, cwd and copy/write options. Complete over operation indices only in the thorough sweep worlds; otherwise stratified by (phase, op kind, path class).",
  note="page worlds hold a symlinked asset named like a sibling page's output (absolute target outside the output directory); faults are addressed by (operation kind, path, occurrence); placements are stratified so that each occurs in every quick run; pre-existing content of a graph directory must survive; crash = process kill, not power loss; writes by child processes are judged by the snapshot only; running as root so real EACCES never occurs (simulated only); allowed roots are computed from the generated placement, independently of FORD"),
"C20": dict(level="fault_enumeration", design="5.4",
  technique="deterministic simulation with storage-fault injection: valid generated world + 1-3 files damaged by seeded truncation (statement/byte), splice, lost block, bit flips, undecodable bytes, empty/binary/directory, unbalanced END, misplaced CONTAINS, malformed-construct grammar, or a simulated errno at open(); placed first/between/last in the read order; real Project()+correlate()+markdown() per variant in forked children of one cold process under a sys.monitoring step budget and a wall watchdog; differential oracle against the same world without the damaged files; sampled cold full-HTML runs",
  text="Enumerates corruption kinds x positions over generated worlds; for each, the canonical dump (entities, attributes, docs, resolved references, page stems, per-kind lists) of every valid file must equal the dump with the damaged files absent, rejected files must be named in the diagnostics, the parse must finish within a deterministic step budget, and nothing may abort the run while reading. Crashes in correlate caused by a damaged file FORD's parser *accepted* are tallied as out of scope (premise: 'cannot be parsed').",
  note="every world has a valid file whose INCLUDE is found through the `include` setting and one damaged file in a directory holding an equally named include file; also: damaged copies of the valid files, files that must be rejected (unbalanced END), reading faults (dangling symlink, missing/undecodable/cyclic include, errno at the 1st/2nd open), 70 rejected files under RLIMIT_NOFILE=48, FORD's example sources as a valid world; step budget counts line events in FORD's reader/parser/project modules only; wall watchdog max(10 s, 200 x fault-free); input lines <= 2 KB; damaged files use an identifier prefix the valid world never uses"),
"C17": dict(level="exploration", design="5.6",
  technique="deterministic simulation (narrow): seeded permutation of every listdir/scandir result and torn page files (title-loss: emptied, cut inside/before the metadata header, damaged key, leading blank line) on leaf pages, sub-directory index.md and first/last siblings; real get_page_tree() per variant in forked children of a cold process vs a reference model of the page tree; sampled cold full runs check pages 1:1, copied files/copy_subdir and every link and |page|/|media|/|url| alias from every depth",
  text="Seeded search over generated page directories (depth <= 4, index present/absent/title-less, hidden and ~ files, ordered_subpage valid/partial/duplicate/naming missing entries, copy_subdir, other files) x enumeration orders x torn-file sets; the real tree must equal the model under every order and every torn file must be reported without losing siblings. Narrow claim: most of C17 is a function of the directory tree; simulation contributes enumeration order and torn files.",
  note="worlds also contain dotted/blank/mixed-case names, *.md directories, indented and metadata-only pages, latin-1 encoding, aliases inside raw HTML, empty local copy_subdir; trusts the ~60-line page-tree model (fordsim/pagemodel.py); base names are three-letter lower-case words; only title-loss faults are injected; copy_subdir directories never hold an index.md"),
"C16": dict(level="exploration", design="5.5",
  technique="deterministic simulation of a two-party history: project A (externalize), its published copy, project B (external via local path or via SimNet, the simulated HTTP peer behind ford.external_project.urlopen); seeded sequences of buildA(options)/publish(atomic|torn|truncated|missing)/corrupt(15 kinds)/netfault(21 kinds)/buildB(via)/buildB_noext, every build a cold fully simulated real FORD run; invariants I1-I5 evaluated after each buildB against the channel state; history+world minimisation",
  text="Seeded search over pairs of generated projects and histories of the channel between them. I1: B survives any channel state or network fault; I2: on an atomically published build every link of B into A hits an existing page/anchor that documents that entity, and every USE/type/extends reference B makes to a public entity of A is such a link; I3: modules.json lists exactly A's modules and public entities per the C06 reference model; I4: B's own module of the same name wins; I5: on a faulty channel B's output equals the build without 'external' except for links.",
  note="histories also contain a third project Z that A lists as external, rebuilds of A that are killed or run out of disk part-way and are published as they are, a second unusable external project, absolute/relative local paths, other working directories and labels; SimNet raises only what urllib/http.client raise for the same event, stalled reads excluded; I2 only on consistent channels; calls are not checked as links (rendered in graphs only); A and B are generated from one combined module graph split at a random index"),
}
m = {"version":1,
 "setup_cmd":"/venv/bin/python -c 'import ford, sys; print(ford.__file__)' && command -v dot setarch >/dev/null && mkdir -p /dev/shm/fordsim",
 "hooks":{"guard":"FORD_VERIF_SIM","enable":"no source hooks: every seam is a module attribute or stdlib entry point wrapped by fordsim before ford is imported","baseline_off_cmd":"/venv/bin/python /verif/tools/baseline.py /repo","source_commits":[],"add_only":True},
 "engines":[{"name":"fordsim","path":"/verif/fordsim","serves_properties":sorted(CHECKS),"kind_free_text":"deterministic simulation with fault injection: seeded scheduler over hash seed, enumeration order, FS faults/kill points, simulated worker pool, simulated peer/network; cold interpreter per run"}],
 "checks":[],
 "not_applicable":[],
 "notes":"see DESIGN.md; known_findings.json lists genuine defects (fixed ones have regression replays under corpus/)"}
for pid in sorted(CHECKS):
    c = CHECKS[pid]
    low = pid.lower()
    m["checks"].append({"property_id":pid,
      "quick_cmd":"/venv/bin/python checks/%s.py --tier quick" % low,
      "thorough_cmd":"/venv/bin/python checks/%s.py --tier thorough" % low,
      "evidence_file":"/verif/evidence/%s.json" % pid,
      "replay_cmd_template":"/venv/bin/python checks/%s.py --replay {path}" % low,
      "engine":"fordsim",
      "level_claimed":{"category":c["level"],"text":c["text"],"design_ref":"DESIGN.md section "+c["design"]},
      "level_note":c["note"],
      "technique":c["technique"]})
for pid in ["C%02d"%i for i in range(1,21)]:
    if pid in CHECKS: continue
    m["not_applicable"].append({"property_id":pid,"reason":NA.get(pid,PENDING)})
json.dump(m,open(os.path.join(V,"MANIFEST.json"),"w"),indent=1)
print("checks:",sorted(CHECKS))
