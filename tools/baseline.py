#!/venv/bin/python
"""Run FORD's pinned test baseline and compare with /root/.vp/BASELINE.json stable_pass."""
import json, os, subprocess, sys, xml.etree.ElementTree as ET
repo = sys.argv[1] if len(sys.argv) > 1 else "/repo"
base = json.load(open("/root/.vp/BASELINE.json"))
out = "/dev/shm/fordsim-baseline-%d.xml" % os.getpid()
env = dict(os.environ)
env.pop("FORD_VERIF_SIM", None)
subprocess.run(["/venv/bin/python", "-m", "pytest", "-ra", "-q", "-p", "no:cacheprovider", "--timeout=900",
                "--continue-on-collection-errors", "--junitxml=" + out], cwd=repo, env=env,
               stdout=subprocess.DEVNULL, stderr=subprocess.DEVNULL)
passed = set()
for tc in ET.parse(out).getroot().iter("testcase"):
    if not any(c.tag in ("failure", "error", "skipped") for c in tc):
        passed.add("%s::%s" % (tc.get("classname"), tc.get("name")))
os.unlink(out)
want = set(base["stable_pass"])
missing = sorted(want - passed)
print("stable_pass=%d passed_now=%d missing=%d" % (len(want), len(passed), len(missing)))
for m in missing[:20]:
    print("  NOT PASSING:", m)
sys.exit(1 if missing else 0)
