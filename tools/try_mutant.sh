#!/bin/bash
# usage: try_mutant.sh <patch.diff> <check (c06|c12|...)> [extra args]
# Applies the patch to /repo, runs the check (no evidence), reverts /repo.
set -u
P=$(realpath "$1"); C=$2; shift 2
cd /repo && git status --porcelain | grep -q . && { echo "/repo not clean"; exit 9; }
git apply "$P" || { echo "patch does not apply"; exit 8; }
cd /verif && rm -rf replays/${C^^}
/venv/bin/python checks/$C.py --tier quick --no-evidence "$@" 2>&1 | cut -c1-400 | tail -8
RC=${PIPESTATUS[0]}
git -C /repo checkout -- .
echo "check exit=$RC"
