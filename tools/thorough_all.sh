#!/bin/bash
# background sweep: every thorough tier, one after the other, against a snapshot of /repo (vp run --with-repo)
export FORDSIM_REPO=${VP_RUN_REPO:-}
for c in c06 c12 c16 c17 c19 c20; do
  echo "=== $c $(date +%T) repo=${FORDSIM_REPO:-/repo}"
  /venv/bin/python checks/$c.py --tier thorough --no-evidence 2>&1 | cut -c1-600 | tail -25
done
