#!/bin/bash
# usage: confirm_mutant.sh <mutant dir with patch.diff + demo.(py|sh)>
# Confirms in a scratch worktree of /repo HEAD: patch applies, baseline passes with it, demo fails with it and passes without.
set -u
M=$(realpath "$1")
WT=/tmp/confirm_wt_$$
git -C /repo worktree add -q --detach $WT HEAD || exit 9
cd $WT
DEMO=$M/demo.py; RUN="/venv/bin/python"
[ -f "$DEMO" ] || { DEMO=$M/demo.sh; RUN="bash"; }
echo "--- demo on unchanged tree"; FORD_DEBUGGING=1 PYTHONPATH=$WT timeout 600 $RUN $DEMO $WT >/tmp/confirm_$$.a 2>&1; A=$?; tail -3 /tmp/confirm_$$.a; echo "exit=$A"
if git apply --check $M/patch.diff 2>/dev/null; then git apply $M/patch.diff; AP=ok; else AP=FAILED; fi
echo "--- apply: $AP"
echo "--- baseline with patch"; /venv/bin/python /tmp/baseline_check.py $WT | head -5; 
echo "--- demo on changed tree"; FORD_DEBUGGING=1 PYTHONPATH=$WT timeout 600 $RUN $DEMO $WT >/tmp/confirm_$$.b 2>&1; B=$?; tail -5 /tmp/confirm_$$.b; echo "exit=$B"
cd /; git -C /repo worktree remove --force $WT; rm -f /tmp/confirm_$$.*
echo "SUMMARY apply=$AP unchanged_exit=$A changed_exit=$B"
