#!/bin/bash
# quick tier of every check under several seeds (no evidence written): looks for rare false alarms
export FORDSIM_REPO=${VP_RUN_REPO:-}
for s in ${SEEDS:-2 3 4 5 6 7}; do
  for c in c06 c12 c16 c17 c19 c20; do
    echo "=== seed $s $c $(date +%T)"
    VERIF_SEED=$s VERIF_NO_SELFTEST=1 /venv/bin/python checks/$c.py --tier quick --no-evidence 2>&1 | cut -c1-500 | grep -E "VIOLATION|HARNESS|KNOWN|tier=quick" | tail -8
  done
done
