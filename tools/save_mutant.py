#!/venv/bin/python
"""save_mutant.py <src dir> <seeded id> <property> <caught: yes|no|...> <needs...>"""
import json, os, shutil, sys
src, sid, prop, caught = sys.argv[1:5]
needs = " ".join(sys.argv[5:])
dst = os.path.join("/verif/seeded", sid)
os.makedirs(dst, exist_ok=True)
for f in os.listdir(src):
    shutil.copy(os.path.join(src, f), dst)
meta = {"property": prop, "needs_to_manifest": needs,
        "confirmed": "tools/confirm_mutant.sh: patch applies to /repo HEAD in a scratch worktree, pinned baseline still passes (255/255), demo exits 0 on the unchanged tree and non-zero with the patch",
        "checked_with": "tools/try_mutant.sh <patch> %s  (git -C /repo apply; checks/%s.py --tier quick; git -C /repo checkout -- .)" % (prop.lower(), prop.lower()),
        "caught_by_quick_check": caught}
json.dump(meta, open(os.path.join(dst, "meta.json"), "w"), indent=1)
print("saved", dst)
